import TsrunVerif.Model.Ops
import TsrunVerif.Model.Ctl

namespace TsrunVerif.Driver
open TsrunVerif.Ops

/-- operand tokens: `U` undefined, `N` null, `T`/`F` booleans, `nNaN`, `nInf`, `n-Inf`, `n-0`,
`n<int>`, `s<text>` -/
def parseV (t : String) : Option V :=
  if t == "U" then some .undef
  else if t == "N" then some .null
  else if t == "T" then some (.bool true)
  else if t == "F" then some (.bool false)
  else if t == "nNaN" then some (.num .nan)
  else if t == "nInf" then some (.num .pinf)
  else if t == "n-Inf" then some (.num .ninf)
  else if t == "n-0" then some (.num .negz)
  else if t.startsWith "n" then ((t.drop 1).toString.toInt?).map (fun z => V.num (.int z))
  else if t.startsWith "s" then some (.str (t.drop 1).toString)
  else none

/-- `B<TAB>op<TAB>a<TAB>b` / `U<TAB>op<TAB>a` → canonical result -/
def opsLine (line : String) : String :=
  match line.splitOn "\t" with
  | ["B", op, a, b] =>
    (match parseV a, parseV b with
     | some x, some y => (match binop op x y with | some r => showV r | none => "unmodelled")
     | _, _ => "bad-case")
  | ["U", op, a] =>
    (match parseV a with
     | some x => (match unop op x with | some r => showV r | none => "unmodelled")
     | none => "bad-case")
  | _ => "bad-case"

end TsrunVerif.Driver

namespace TsrunVerif.Driver.CtlGen
open TsrunVerif.Ctl

abbrev G := StateM Nat

def rnd (n : Nat) : G Nat := do
  let s ← get
  let s' := (s * 6364136223846793005 + 1442695040888963407) % 18446744073709551616
  set s'
  return (s' / 4294967296) % (if n = 0 then 1 else n)

def pick {α : Type} [Inhabited α] (l : List α) : G α := do
  return l.getD (← rnd l.length) default

structure Ctx where
  vars : List String          -- variables in scope
  loops : List String         -- labels of enclosing loops (innermost first), "" for unlabelled
  blocks : List String        -- labels of enclosing labelled blocks
  inLoop : Bool
  inSwitch : Bool
  locals : List String := []   -- declared in the current block (a second `let` would be a SyntaxError)
  deriving Inhabited

/-- the context of a nested block -/
def Ctx.inner (cx : Ctx) : Ctx := { cx with locals := [] }

partial def genE (cx : Ctx) (d : Nat) : G Expr := do
  let k ← rnd (if d = 0 then 2 else 5)
  match k with
  | 0 => return .lit ((← rnd 7) : Nat)
  | 1 => if cx.vars.isEmpty then return .lit 1 else return .var (← pick cx.vars)
  | 2 => return .add (← genE cx (d - 1)) (← genE cx (d - 1))
  | 3 => return .lt (← genE cx (d - 1)) (← genE cx (d - 1))
  | _ => return .eq (← genE cx (d - 1)) (.lit ((← rnd 4) : Nat))

partial def genL (n : Nat) (depth : Nat) (cx : Ctx) (id : Nat) : G (List Stmt) := do
  if n = 0 then return []
  let k ← rnd (if depth = 0 then 4 else 14)
  let tag := s!"t{id}_"
  let mk (s : Stmt) (cx' : Ctx := cx) : G (List Stmt) := do
    return s :: (← genL (n - 1) depth cx' (id * 3 + 1))
  match k with
  | 0 | 1 => mk (.log tag (← genE cx 2))
  | 2 => do
    let x := s!"v{id % 5}"
    if cx.locals.contains x then mk (.assign x (← genE cx 2))
    else mk (.letS x (← genE cx 2)) { cx with vars := if cx.vars.contains x then cx.vars else x :: cx.vars, locals := x :: cx.locals }
  | 3 => do
    -- loop counters (i…) are never assigned by the body: the programs terminate
    let targets := cx.vars.filter (fun v => !v.startsWith "i")
    if targets.isEmpty then mk (.log tag (.lit 0)) else mk (.assign (← pick targets) (← genE cx 2))
  | 4 => mk (.block (← genL (← rnd 3) (depth - 1) cx.inner (id * 3 + 2)))
  | 5 => mk (.ifS (← genE cx 2) (← genL ((← rnd 3) + 1) (depth - 1) cx.inner (id * 3 + 2)) (← genL (← rnd 2) (depth - 1) cx.inner (id * 3 + 3)))
  | 6 => do
    -- a counted loop: let i = 0; while (i < k) { i = i + 1; body }
    let i := s!"i{id % 7}"
    let lab0 ← pick ["", "", s!"L{id}"]
    let lab := if cx.loops.contains lab0 || cx.blocks.contains lab0 then "" else lab0
    let cx' : Ctx := { cx with vars := i :: cx.vars, loops := lab :: cx.loops, inLoop := true, inSwitch := false, locals := [] }
    let body ← genL ((← rnd 3) + 1) (depth - 1) cx' (id * 3 + 2)
    let loopS := Stmt.whileS (if lab == "" then [] else [lab]) (.lt (.var i) (.lit (((← rnd 3) + 1 : Nat))))
      (.assign i (.add (.var i) (.lit 1)) :: body)
    return .block [.letS i (.lit 0), loopS] :: (← genL (n - 1) depth cx (id * 3 + 1))
  | 7 => do
    -- break / continue (only where legal)
    let labs := cx.loops.filter (· != "")
    let c ← rnd 6
    if c < 2 && cx.inLoop then do
      let lab ← pick labs
      mk (.ifS (← genE cx 1) [.cont (if labs.isEmpty || c == 0 then none else some lab)] [])
    else if c < 4 && (cx.inLoop || cx.inSwitch) then mk (.ifS (← genE cx 1) [.brk none] [])
    else if !labs.isEmpty then mk (.ifS (← genE cx 1) [.brk (some (← pick labs))] [])
    else if !cx.blocks.isEmpty then mk (.ifS (← genE cx 1) [.brk (some (← pick cx.blocks))] [])
    else mk (.log tag (.lit 7))
  | 8 => mk (.ifS (← genE cx 1) [.ret (← genE cx 1)] [])
  | 9 => mk (.ifS (← genE cx 1) [.thr (← genE cx 1)] [])
  | 10 | 11 => do
    let body ← genL ((← rnd 3) + 1) (depth - 1) cx.inner (id * 3 + 2)
    let shape ← rnd 3
    let e := s!"e{id % 3}"
    let handler ← if shape == 1 then pure [] else genL ((← rnd 2) + 1) (depth - 1) { cx with locals := [e] } (id * 3 + 3)
    let fin ← if shape == 0 then pure none else some <$> genL ((← rnd 2) + 1) (depth - 1) cx.inner (id * 3 + 4)
    mk (.tryS body (if shape == 1 then none else some e) handler fin)
  | 12 => do
    let l := s!"B{id}"
    if cx.blocks.contains l || cx.loops.contains l then mk (.log tag (.lit 9))
    else mk (.labelled l (← genL ((← rnd 3) + 1) (depth - 1) { cx with blocks := l :: cx.blocks, locals := [] } (id * 3 + 2)))
  | _ => do
    let cx' := { cx with inSwitch := true, locals := [] }
    let ncases ← rnd 3
    -- every clause body is a block of its own (all clauses of a switch share one scope in JavaScript)
    let cases ← (List.range (ncases + 1)).mapM (fun j => do
      return ((j : Int), [Stmt.block (← genL (← rnd 3) (depth - 1) cx' (id * 5 + j))]))
    let dflt ← if (← rnd 2) == 0 then pure none else (fun b => some [Stmt.block b]) <$> genL ((← rnd 2) + 1) (depth - 1) cx' (id * 3 + 3)
    -- the default clause anywhere among the cases (the cases after it are still tested first)
    let dpos ← rnd (ncases + 2)
    mk (.switchS (← genE cx 2) cases dflt dpos)

def genProg : G (List Stmt) := do
  genL ((← rnd 5) + 3) 3 { vars := [], loops := [], blocks := [], inLoop := false, inSwitch := false } 1

end TsrunVerif.Driver.CtlGen

namespace TsrunVerif.Driver
open TsrunVerif.Ctl

/-- `<seed>` → `<program source>\t<log,…|completion>` as the model predicts -/
def ctlLine (line : String) : String :=
  match line.trimAscii.toString.toNat? with
  | some seed =>
    let (p, _) := (CtlGen.genProg.run (seed * 2654435761 + 99991)).run
    let (log, fin) := run p
    let src := ((render p).replace "\\" "\\\\").replace "\n" "\\n"
    s!"{src}\t{",".intercalate log}|{fin}"
  | none => "bad-case"

end TsrunVerif.Driver
