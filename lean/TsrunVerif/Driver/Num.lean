import TsrunVerif.Model.Num

namespace TsrunVerif.Driver
open TsrunVerif.Num

def optNat (s : String) : Option Nat := s.toNat?

/-- case lines:
  `S <bits>`          Number::toString          `I <bits>`  ToInt32,ToUint32
  `F <bits> <f>`      toFixed   `R <bits> <p>`  toPrecision   `E <bits> <f|->` toExponential
  `D <text>`          decimal text → bits of the correctly rounded double (or `nan`)
  `T <bits>`          model self-check: numberToString then read back -/
def numLine (line : String) : String :=
  match line.splitOn " " with
  | ["S", b] =>
    match optNat b with
    | some bits =>
      match decode bits with
      | .fin neg m e =>
        let (ds, point, fb) := shortest m e
        if fb then "model-fallback" else String.ofList ((if neg then ['-'] else []) ++ layout ds point)
      | x => String.ofList (numberToString x)
    | none => "bad-case"
  | ["I", b] =>
    match optNat b with
    | some bits => let x := decode bits; s!"{toInt32 x},{toUint32 x}"
    | none => "bad-case"
  | ["F", b, f] =>
    match optNat b, optNat f with
    | some bits, some f => String.ofList (toFixed (decode bits) f)
    | _, _ => "bad-case"
  | ["R", b, p] =>
    match optNat b, optNat p with
    | some bits, some p => String.ofList (toPrecision (decode bits) p)
    | _, _ => "bad-case"
  | ["E", b, f] =>
    match optNat b with
    | some bits => String.ofList (toExponential (decode bits) (optNat f))
    | none => "bad-case"
  | ["B", op, a, b] =>
    match optNat a, optNat b with
    | some a, some b => toString (bitop op (decode a) (decode b))
    | _, _ => "bad-case"
  | ["X", t] =>
    match parseDecimal t.toList with
    | some (d, x) => toString (decToBits d x)
    | none => "nan"
  | ["D", t] =>
    match parseDecimal t.toList with
    | some (d, x) => toString (decToBits d x)
    | none => "nan"
  | ["T", b] =>
    match optNat b with
    | some bits =>
      match decode bits with
      | .fin _ m e =>
        let (ds, point, _) := shortest m e
        let c := ds.foldl (fun a d => a * 10 + d) 0
        let back := decToBits c (point - ds.length)
        if back == bitsOf (.fin false m e) then "ok" else s!"roundtrip-fail {back}"
      | _ => "ok"
    | none => "bad-case"
  | _ => "bad-case"

end TsrunVerif.Driver
