import TsrunVerif.Model.Num
import TsrunVerif.Model.RadixLit

namespace TsrunVerif.Driver
open TsrunVerif.Num

def optNat (s : String) : Option Nat := s.toNat?

/-- `0x…` / `0o…` / `0b…` (with `_` separators) → (bits per digit, digits) -/
def radixDigits (cs : List Char) : Option (Nat × List Nat) :=
  let digit (c : Char) : Option Nat :=
    if c.isDigit then some (c.toNat - 48)
    else if 'a' ≤ c ∧ c ≤ 'f' then some (c.toNat - 87)
    else if 'A' ≤ c ∧ c ≤ 'F' then some (c.toNat - 55)
    else none
  match cs with
  | '0' :: p :: rest =>
    let k : Option Nat := if p == 'x' || p == 'X' then some 4 else if p == 'o' || p == 'O' then some 3 else if p == 'b' || p == 'B' then some 1 else none
    match k with
    | none => none
    | some k =>
      match (rest.filter (· != '_')).mapM digit with
      | some ds => if ds.isEmpty || ds.any (fun d => d ≥ 2 ^ k) then none else some (k, ds)
      | none => none
  | _ => none

/-- case lines:
  `S <bits>`          Number::toString          `I <bits>`  ToInt32,ToUint32
  `F <bits> <f>`      toFixed   `R <bits> <p>`  toPrecision   `E <bits> <f|->` toExponential
  `D <text>`          decimal text → bits of the correctly rounded double (or `nan`)
  `T <bits>`          model self-check: numberToString then read back -/
def numLine (line : String) : String :=
  match line.splitOn " " with
  | ["S", b] =>
    match optNat b with
    | some bits =>
      match decode bits with
      | .fin neg m e =>
        let (ds, point, fb) := shortest m e
        if fb then "model-fallback" else String.ofList ((if neg then ['-'] else []) ++ layout ds point)
      | x => String.ofList (numberToString x)
    | none => "bad-case"
  | ["I", b] =>
    match optNat b with
    | some bits => let x := decode bits; s!"{toInt32 x},{toUint32 x}"
    | none => "bad-case"
  | ["F", b, f] =>
    match optNat b, optNat f with
    | some bits, some f => String.ofList (toFixed (decode bits) f)
    | _, _ => "bad-case"
  | ["R", b, p] =>
    match optNat b, optNat p with
    | some bits, some p => String.ofList (toPrecision (decode bits) p)
    | _, _ => "bad-case"
  | ["E", b, f] =>
    match optNat b with
    | some bits => String.ofList (toExponential (decode bits) (optNat f))
    | none => "bad-case"
  | ["B", op, a, b] =>
    match optNat a, optNat b with
    | some a, some b => toString (bitop op (decode a) (decode b))
    | _, _ => "bad-case"
  | ["X", t] =>
    match radixDigits t.toList with
    | some (k, ds) =>
      -- a 0x / 0o / 0b literal: M-RadixLit yields the exact integer, whose bit pattern `roundRat` gives (no rounding left to do)
      let a := TsrunVerif.RadixLit.scan k ds
      let m := TsrunVerif.RadixLit.mant a
      let v := if m < 2 ^ 53 then m * 2 ^ a.dropped else TsrunVerif.RadixLit.literal k ds (m.log2 - 52)
      toString (roundRat v 1)
    | none =>
      match parseDecimal t.toList with
      | some (d, x) => toString (decToBits d x)
      | none => "nan"
  | ["D", t] =>
    match parseDecimal t.toList with
    | some (d, x) => toString (decToBits d x)
    | none => "nan"
  | ["T", b] =>
    match optNat b with
    | some bits =>
      match decode bits with
      | .fin _ m e =>
        let (ds, point, _) := shortest m e
        let c := ds.foldl (fun a d => a * 10 + d) 0
        let back := decToBits c (point - ds.length)
        if back == bitsOf (.fin false m e) then "ok" else s!"roundtrip-fail {back}"
      | _ => "ok"
    | none => "bad-case"
  | _ => "bad-case"

end TsrunVerif.Driver
