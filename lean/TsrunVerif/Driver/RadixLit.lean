import TsrunVerif.Model.RadixLit

/-! `radix` mode: `k<TAB>digit,digit,…` → the integer the model of `radix_literal_value` yields
(the mantissa rounded to 53 significant bits at its own rounding position, scaled), in decimal. -/
namespace TsrunVerif.Driver
open TsrunVerif.RadixLit

def radixLine (line : String) : String :=
  match line.splitOn "\t" with
  | [k, ds] =>
    match k.toNat?, ((ds.splitOn ",").filter (· != "")).mapM String.toNat? with
    | some k, some ds =>
      if ds.any (fun d => d ≥ 2 ^ k) then "bad-case" else
      let a := scan k ds
      let m := mant a
      if m < 2 ^ 53 then toString (m * 2 ^ a.dropped)
      else toString (literal k ds (m.log2 - 52))
    | _, _ => "bad-case"
  | _ => "bad-case"

end TsrunVerif.Driver
