import TsrunVerif.Model.Life

namespace TsrunVerif.Driver
open TsrunVerif.Life TsrunVerif.Roots

/-- line: runs separated by ';', each a ','-list of events: `P0`/`P1` prepare script/module ·
`+` pushScope · `-` popScope · `c` call · `r` ret · `X` export · `C` complete · `E` error.
After each run prints `g<env is global>e<guards>c<call stack>v<active vm>s<saved env>m<module env>x<exports>`. -/
def lifeLine (line : String) : String :=
  let runs := (line.splitOn ";").filter (· ≠ "")
  let (_, outs) := runs.foldl (fun (acc : L × List String) r =>
    let evs : List Life.Ev := ((r.splitOn ",").filter (· ≠ "")).filterMap (fun t =>
      if t == "P0" then some (.prepare false) else if t == "P1" then some (.prepare true)
      else if t == "+" then some (.vm .pushScope) else if t == "-" then some (.vm .popScope)
      else if t == "c" then some (.vm .call) else if t == "r" then some (.vm .ret)
      else if t == "X" then some .export else if t == "C" then some .complete
      else if t == "E" then some .error else none)
    let l := Life.run acc.1 evs
    let b (x : Bool) : String := if x then "1" else "0"
    let isGlobal := !l.inModuleEnv && l.vm.cur == 0 && l.vm.frames.isEmpty
    (l, s!"g{b isGlobal}e{l.vm.guards}c{l.callStack}v{b l.activeVm}s{b l.savedEnv}m{b l.moduleEnv}x{l.exports}" :: acc.2))
    (L.init, [])
  "|".intercalate outs.reverse

end TsrunVerif.Driver
