import TsrunVerif.Model.Coerce
import TsrunVerif.Driver.Ops

/-! line protocol of M-Coerce: `B\t<op>\t<operand>\t<operand>` / `U\t<op>\t<operand>`; an operand is a primitive token of the
`ops` protocol or `O<name>;<valueOf>;<toString>;<toPrimitive>` with behaviours `R<prim token>`, `O` (returns an object),
`T<tag>` (throws), `A` (not callable) → `<result>|<call log>` -/
namespace TsrunVerif.Driver
open TsrunVerif.Coerce TsrunVerif.Ops

def parseBeh (s : String) : Option Beh :=
  if s = "O" then some .retObj
  else if s = "A" then some .absent
  else if s.startsWith "T" then (s.drop 1).toString.toNat?.map .throws
  else if s.startsWith "R" then (parseV (s.drop 1).toString).map .ret
  else none

def parseOperand (s : String) : Option Operand :=
  if s.startsWith "O" then
    match (s.drop 1).toString.splitOn ";" with
    | [n, v, t, p] =>
      match n.toNat?, parseBeh v, parseBeh t, parseBeh p with
      | some n, some v, some t, some p => some (.obj { name := n, valueOf := v, toString := t, toPrim := p })
      | _, _, _, _ => none
    | _ => none
  else (parseV s).map .prim

def showRes (r : Res V × Log) : String :=
  let res := match r.1 with
    | .ok v => showV v
    | .typeError => "TypeError"
    | .thrown t => s!"thrown:{t}"
  res ++ "|" ++ ",".intercalate (r.2.map (fun p => toString p.1 ++ String.singleton p.2))

def coerceLine (line : String) : String :=
  match line.splitOn "\t" with
  | ["B", op, a, b] =>
    (match parseOperand a, parseOperand b with
     | some x, some y => showRes (binary op x y)
     | _, _ => "bad-case")
  | ["U", op, a] =>
    (match parseOperand a with
     | some x => showRes (unary op x)
     | none => "bad-case")
  | _ => "bad-case"

end TsrunVerif.Driver
