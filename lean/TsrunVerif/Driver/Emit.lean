import TsrunVerif.Model.Emit

namespace TsrunVerif.Driver
open TsrunVerif.Emit

def parseMember (s : String) : Option Member :=
  match s.splitOn "=" with
  | [nm, "auto"] => some ⟨nm, .auto⟩
  | [nm, v] =>
    if v.startsWith "n:" then (v.drop 2).toString.toInt?.map (fun n => ⟨nm, .val (.num n)⟩)
    else if v.startsWith "s:" then some ⟨nm, .val (.str (v.drop 2).toString)⟩
    else none
  | _ => none

def showVal : EVal → String
  | .num n => toString n
  | .str s => "\"" ++ s ++ "\""

def showKey : Key → String
  | .name s => s
  | .idx n => toString n

def insertSorted (x : String) : List String → List String
  | [] => [x]
  | y :: ys => if x ≤ y then x :: y :: ys else y :: insertSorted x ys

def sortStrings (l : List String) : List String := l.foldl (fun acc x => insertSorted x acc) []

def showObj (o : Obj) : String :=
  ",".intercalate (sortStrings (o.map (fun p => showKey p.1 ++ "=" ++ showVal p.2)))

def parseExprRPN (toks : List String) : Option Ns.Expr :=
  let step (st : Option (List Ns.Expr)) (t : String) : Option (List Ns.Expr) :=
    match st with
    | none => none
    | some stack =>
      if t == "+" then
        match stack with
        | b :: a :: rest => some (Ns.Expr.add a b :: rest)
        | _ => none
      else match t.toInt? with
        | some n => some (Ns.Expr.lit n :: stack)
        | none => some (Ns.Expr.var t :: stack)
  match toks.foldl step (some []) with
  | some [e] => some e
  | _ => none

def parseStmt (s : String) : Option Ns.Stmt :=
  match s.splitOn " " with
  | "ex" :: x :: rest => (parseExprRPN rest).map (Ns.Stmt.exportVar x)
  | "lo" :: x :: rest => (parseExprRPN rest).map (Ns.Stmt.localVar x)
  | "as" :: x :: rest => (parseExprRPN rest).map (Ns.Stmt.assign x)
  | _ => none

def allSome {α : Type} : List (Option α) → Option (List α)
  | [] => some []
  | none :: _ => none
  | some x :: rest => (allSome rest).map (x :: ·)

/-- `E <m;m;…|m;…>` → `wf=<bool> emit=<obj> lower=<obj>` (blocks are merged declarations)
`N <s;s;…|s;…>` → `alias=<store> emit=<store>` -/
def emitLine (line : String) : String :=
  if line.startsWith "E " then
    let blocks := ((line.drop 2).toString.splitOn "|").map (fun b => allSome ((b.splitOn ";").map parseMember))
    match allSome blocks with
    | some bs =>
      let wf := bs.all (fun b => wellFormedFrom none b)
      let e := bs.foldl (fun o b => emit b o) []
      let l := bs.foldl (fun o b => lower b o) []
      s!"wf={wf}\temit={showObj e}\tlower={showObj l}"
    | none => "bad-case"
  else if line.startsWith "N " then
    let blocks := ((line.drop 2).toString.splitOn "|").map (fun b => allSome ((b.splitOn ";").map parseStmt))
    match allSome blocks with
    | some bs =>
      let sh (s : Ns.Store) := ",".intercalate (sortStrings (s.map (fun p => p.1 ++ "=" ++ toString p.2)))
      s!"alias={sh (Ns.runAlias bs).1}\temit={sh (Ns.runEmit bs).1}"
    | none => "bad-case"
  else "bad-case"

end TsrunVerif.Driver
