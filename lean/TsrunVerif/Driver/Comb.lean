import TsrunVerif.Model.Comb

/-! line protocol of M-Comb: `<all|allSettled|any|race>\t<n>\t<events>`; events `f<i>:<v>` / `r<i>:<v>` separated by
commas → `pending` | `ful:<…>` | `rej:<…>` -/
namespace TsrunVerif.Driver
open TsrunVerif.Comb

def parseEv (s : String) : Option Ev :=
  match ((s.drop 1).toString.splitOn ":") with
  | [i, v] =>
    match i.toNat?, v.toInt? with
    | some i, some v => if s.startsWith "f" then some (.ful i v) else if s.startsWith "r" then some (.rej i v) else none
    | _, _ => none
  | _ => none

def showIntList (l : List Int) : String := ",".intercalate (l.map toString)

def combLine (line : String) : String :=
  match line.splitOn "\t" with
  | [kind, n, evs] =>
    match n.toNat?, (if evs = "" then some [] else (evs.splitOn ",").mapM parseEv) with
    | some n, some es =>
      if kind = "all" then
        match all n es with
        | .pending => "pending"
        | .fulfilled vs => "ful:" ++ showIntList vs
        | .rejected r => s!"rej:{r}"
      else if kind = "allSettled" then
        match allSettled n es with
        | .pending => "pending"
        | .fulfilled xs => "ful:" ++ ",".intercalate (xs.map (fun x => match x with | .fulfilled v => s!"f{v}" | .rejected r => s!"r{r}"))
        | .rejected r => s!"rej:{r}"
      else if kind = "any" then
        match any n es with
        | (.pending, _) => "pending"
        | (.fulfilled v, _) => s!"ful:{v}"
        | (.rejected _, some rs) => "rej:" ++ showIntList rs
        | (.rejected r, none) => s!"rej:{r}"
      else if kind = "race" then
        match race es with
        | .pending => "pending"
        | .fulfilled v => s!"ful:{v}"
        | .rejected r => s!"rej:{r}"
      else "bad-case"
    | _, _ => "bad-case"
  | _ => "bad-case"

end TsrunVerif.Driver
