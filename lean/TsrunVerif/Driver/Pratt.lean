import TsrunVerif.Model.Pratt
import TsrunVerif.Lemmas.PrecSpec

/-! line protocol of M-Pratt: `<gen|spec>\t<token names separated by blanks>` → S-expression of the
parse (`aN` atoms, `LP`/`RP`, operator tokens by their `TokenKind` name) or `error`. -/
namespace TsrunVerif.Driver
open TsrunVerif.Pratt TsrunVerif

/-- classify a token name; `afterOperand` tells whether a complete operand precedes (then `Plus`/`Minus`
are binary), as the parser's position (loop vs. parse_unary_expression) does -/
def prattTok (unary : List (String × String)) (name : String) (afterOperand : Bool) : Option Tok :=
  if name = "LP" then some .lp
  else if name = "RP" then some .rp
  else if name.startsWith "a" && (name.drop 1).toString.all Char.isDigit && name.length > 1 then
    some (.atom (name.drop 1).toString.toNat!)
  else if afterOperand then
    match genToks.findIdx? (· == name) with
    | some k => some (.op k)
    | none => (unary.findIdx? (fun u => u.1 == name)).map .pre   -- a prefix-only operator after an operand: the loop stops there
  else
    match unary.findIdx? (fun u => u.1 == name) with
    | some u => some (.pre u)
    | none => (genToks.findIdx? (· == name)).map .op   -- an operator where an operand is expected: the model rejects it

def prattToks (unary : List (String × String)) : List String → Bool → Option (List Tok)
  | [], _ => some []
  | n :: ns, after =>
    match prattTok unary n after with
    | none => none
    | some tk =>
      let after' := match tk with | .atom _ => true | .rp => true | _ => false
      (prattToks unary ns after').map (tk :: ·)

def showE (label : Nat → String) (unary : List (String × String)) : E → String
  | .atom n => s!"a{n}"
  | .paren e => s!"(P {showE label unary e})"
  | .un u e => s!"(U {(unary[u]?.map (·.2)).getD "?"} {showE label unary e})"
  | .bin k l r => s!"(B {label k} {showE label unary l} {showE label unary r})"

def prattLine (line : String) : String :=
  match line.splitOn "\t" with
  | [mode, toks] =>
    let names := (toks.splitOn " ").filter (· ≠ "")
    let (tbl, label, unary) :=
      if mode = "spec" then (specTblG, fun k => (specNode.lookup (genToks.getD k "")).getD "?", specUnary)
      else (genTbl, genLabel, Gen.unaryTable)
    match prattToks unary names false with
    | none => "bad-token"
    | some ts =>
      match parseAll tbl ts with
      | some e => showE label unary e
      | none => "error"
  | _ => "bad-case"

end TsrunVerif.Driver
