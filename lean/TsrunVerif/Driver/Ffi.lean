import TsrunVerif.Props.C17

namespace TsrunVerif.Driver
open TsrunVerif.Ffi

def optS (t : String) : Option String := if t == "~" then none else some t

def parsePrim (k v : String) : Option Prim :=
  match k with
  | "undef" => some .undef
  | "null" => some .null
  | "bool" => some (.bool (v == "1"))
  | "num" => v.toInt?.map Prim.num
  | "str" => some (.str v)
  | _ => none

/-- one op: fields separated by U+001F -/
def parseFfiOp (fields : List String) : Option Op :=
  let I (t : String) := t.toInt?
  let N (t : String) := t.toNat?
  match fields with
  | ["ctx"] => some .ctxNew
  | ["ctxfree", c] => (I c).map Op.ctxFree
  | ["mk", c, k, v] => do let c ← I c; let p ← parsePrim k v; pure (.mk c p)
  | ["obj", c] => (I c).map Op.objNew
  | ["arr", c] => (I c).map Op.arrNew
  | ["free", v] => (I v).map Op.free
  | ["dup", c, v] => do pure (.dup (← I c) (← I v))
  | ["typeof", v] => (I v).map Op.typeOf
  | ["getn", v] => (I v).map Op.getNum
  | ["gets", v] => (I v).map Op.getStr
  | ["get", c, o, k] => do pure (.get (← I c) (← I o) (optS k))
  | ["set", c, o, k, v] => do pure (.set (← I c) (← I o) (optS k) (← I v))
  | ["has", c, o, k] => do pure (.has (← I c) (← I o) (optS k))
  | ["del", c, o, k] => do pure (.del (← I c) (← I o) (optS k))
  | ["keys", c, o] => do pure (.keys (← I c) (← I o))
  | ["alen", a] => (I a).map Op.alen
  | ["aget", c, a, i] => do pure (.aget (← I c) (← I a) (← N i))
  | ["aset", c, a, i, v] => do pure (.aset (← I c) (← I a) (← N i) (← I v))
  | ["apush", c, a, v] => do pure (.apush (← I c) (← I a) (← I v))
  | ["gget", c, n] => do pure (.gget (← I c) (optS n))
  | ["gset", c, n, v] => do pure (.gset (← I c) (optS n) (← I v))
  | _ => none

/-- a whole sequence per line: ops separated by U+001E; output: results separated by U+001E, then
`\twf=<all states well-formed>` -/
def ffiLine (line : String) : String :=
  let ops := (line.splitOn "\u001e").map (fun o => parseFfiOp (o.splitOn "\u001f"))
  if ops.any Option.isNone then "bad-case" else
  let (s, outs, wf) := ops.foldl (fun (acc : St × List String × Bool) op =>
    match op with
    | some o => let r := step acc.1 o; (r.1, acc.2.1 ++ [r.2], acc.2.2 && wfB r.1)
    | none => acc) (St.init, [], true)
  let _ := s
  "\u001e".intercalate outs ++ s!"\twf={wf}"

end TsrunVerif.Driver
