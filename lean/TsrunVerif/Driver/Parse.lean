import TsrunVerif.Model.Parse
import TsrunVerif.Gen.ParserLimits

namespace TsrunVerif.Driver
open TsrunVerif.Parse

/-- parse `(()(()))` into a skeleton (the outermost pair is the root) -/
def parseSk (s : String) : Option Sk :=
  let step (st : Option (List (List Sk))) (c : Char) : Option (List (List Sk)) :=
    match st with
    | none => none
    | some stack =>
      if c == '(' then some ([] :: stack)
      else if c == ')' then
        match stack with
        | kids :: parent :: rest => some ((Sk.node kids.reverse :: parent) :: rest)
        | _ => none
      else none
  match s.toList.foldl step (some [[]]) with
  | some [[root]] => some root
  | _ => none

/-- parse `C[W[L]LL]` (`L` leaf, `W[..]` wrap, `C[head ops..]` chain) -/
def parseTr (s : String) : Option Tr :=
  let close (kind : Char) (kids : List Tr) : Option Tr :=
    if kind == 'W' then some (.wrap kids)
    else match kids with
      | h :: ops => some (.chain h ops)
      | [] => none
  let step (st : Option (List (Char × List Tr))) (c : Char) : Option (List (Char × List Tr)) :=
    match st with
    | none => none
    | some stack =>
      if c == 'L' then
        match stack with
        | (k, kids) :: rest => some ((k, Tr.leaf :: kids) :: rest)
        | [] => none
      else if c == 'W' || c == 'C' then some ((c, []) :: stack)
      else if c == '[' then some stack
      else if c == ']' then
        match stack with
        | (k, kids) :: (pk, pkids) :: rest =>
          (close k kids.reverse).map (fun t => (pk, t :: pkids) :: rest)
        | _ => none
      else none
  match s.toList.foldl step (some [('W', [])]) with
  | some [(_, [root])] => some root
  | _ => none

/-- `<skeleton>` → `size=<n> depth=<d> first=<costFirst> again=<costAgain>`;
    `T <tree>` → the accounting's verdict at the limit of the current source (`Gen.maxChain`) and 50 links
    below / above it, with the depth of the tree and of the parser's recursion -/
def parseLine (line : String) : String :=
  let l := line.trimAscii.toString
  if l.startsWith "T " then
    match parseTr (l.drop 2).toString with
    | some t =>
      let m := TsrunVerif.Gen.maxChain
      let b (x : Option (Nat × Nat)) : Nat := if x.isSome then 1 else 0
      s!"tr acc={b (scan m t (0, 0))} lo={b (scan (m - 50) t (0, 0))} hi={b (scan (m + 50) t (0, 0))} tdepth={tdepth t} rdepth={rdepth t} max={m}"
    | none => "bad-case"
  else
  match parseSk l with
  | some s => s!"size={size s} depth={depth s} first={costFirst s} again={costAgain s}"
  | none => "bad-case"

end TsrunVerif.Driver
