import TsrunVerif.Model.Parse

namespace TsrunVerif.Driver
open TsrunVerif.Parse

/-- parse `(()(()))` into a skeleton (the outermost pair is the root) -/
def parseSk (s : String) : Option Sk :=
  let step (st : Option (List (List Sk))) (c : Char) : Option (List (List Sk)) :=
    match st with
    | none => none
    | some stack =>
      if c == '(' then some ([] :: stack)
      else if c == ')' then
        match stack with
        | kids :: parent :: rest => some ((Sk.node kids.reverse :: parent) :: rest)
        | _ => none
      else none
  match s.toList.foldl step (some [[]]) with
  | some [[root]] => some root
  | _ => none

/-- `<skeleton>` → `size=<n> depth=<d> first=<costFirst> again=<costAgain>` -/
def parseLine (line : String) : String :=
  match parseSk line.trimAscii.toString with
  | some s => s!"size={size s} depth={depth s} first={costFirst s} again={costAgain s}"
  | none => "bad-case"

end TsrunVerif.Driver
