import TsrunVerif.Model.Lib

/-! line protocol of M-Lib: `<op>\t<receiver>\t<arg>…` → result.
receiver: comma-separated integers (array ops) or the text itself (string ops, ASCII without tabs);
arguments: `u` undefined, `~` absent, `n` NaN, `-i` / `+i` infinities, `i<k>` integer, `h<k>` k + 0.5;
element / filler arguments are plain integers / texts. -/
namespace TsrunVerif.Driver
open TsrunVerif.Lib

def libArg (s : String) : Option Arg :=
  if s = "u" then some .undef
  else if s = "n" then some .nan
  else if s = "-i" then some .ninf
  else if s = "+i" then some .pinf
  else if s.startsWith "i" then (s.drop 1).toString.toInt?.map .int
  else if s.startsWith "h" then (s.drop 1).toString.toInt?.map .half
  else none

/-- optional argument: `~` is absent -/
def libOpt (s : String) : Option (Option Arg) :=
  if s = "~" then some none else (libArg s).map some

def libList (s : String) : Option (List Int) :=
  if s = "" then some [] else (s.splitOn ",").mapM (·.toInt?)

def showList (l : List Int) : String := ",".intercalate (l.map toString)
def showOpt (o : Option Int) : String := match o with | some v => toString v | none => "undefined"
def showIdx (o : Option Nat) : String := match o with | some v => toString v | none => "-1"

def libLine (line : String) : String :=
  match line.splitOn "\t" with
  | ["slice", l, s, e] =>
    (match libList l, libArg s, libArg e with
     | some l, some s, some e => showList (slice l s e)
     | _, _, _ => "bad-case")
  | ["at", l, i] =>
    (match libList l, libArg i with
     | some l, some i => showOpt (at_ l i)
     | _, _ => "bad-case")
  | ["splice", l, s, d, items] =>
    (match libList l, libOpt s, libOpt d, libList items with
     | some l, some s, some d, some items => let r := splice l s d items; showList r.1 ++ "|" ++ showList r.2
     | _, _, _, _ => "bad-case")
  | ["fill", l, v, s, e] =>
    (match libList l, v.toInt?, libArg s, libArg e with
     | some l, some v, some s, some e => showList (fill l v s e)
     | _, _, _, _ => "bad-case")
  | ["copyWithin", l, t, s, e] =>
    (match libList l, libArg t, libArg s, libArg e with
     | some l, some t, some s, some e => showList (copyWithin l t s e)
     | _, _, _, _ => "bad-case")
  | ["with", l, i, v] =>
    (match libList l, libArg i, v.toInt? with
     | some l, some i, some v => (match with_ l i v with | some r => showList r | none => "RangeError")
     | _, _, _ => "bad-case")
  | ["indexOf", l, x, f] =>
    (match libList l, x.toInt?, libArg f with
     | some l, some x, some f => showIdx (indexOf (· == ·) l x f)
     | _, _, _ => "bad-case")
  | ["lastIndexOf", l, x, f] =>
    (match libList l, x.toInt?, libOpt f with
     | some l, some x, some f => showIdx (lastIndexOf (· == ·) l x f)
     | _, _, _ => "bad-case")
  | ["substring", t, a, b] =>
    (match libArg a, libArg b with
     | some a, some b => String.ofList (substring t.toList a b)
     | _, _ => "bad-case")
  | ["substr", t, a, b] =>
    (match libArg a, libArg b with
     | some a, some b => String.ofList (substr t.toList a b)
     | _, _ => "bad-case")
  | ["strslice", t, a, b] =>
    (match libArg a, libArg b with
     | some a, some b => String.ofList (strSlice t.toList a b)
     | _, _ => "bad-case")
  | ["charAt", t, a] =>
    (match libArg a with
     | some a => String.ofList (charAt t.toList a)
     | _ => "bad-case")
  | ["padStart", t, a, f] =>
    (match libArg a with
     | some a => String.ofList (padStart t.toList a f.toList)
     | _ => "bad-case")
  | ["padEnd", t, a, f] =>
    (match libArg a with
     | some a => String.ofList (padEnd t.toList a f.toList)
     | _ => "bad-case")
  | ["repeat", t, a] =>
    (match libArg a with
     | some a => (match repeat_ t.toList a with | some r => String.ofList r | none => "RangeError")
     | _ => "bad-case")
  | _ => "bad-case"

end TsrunVerif.Driver
