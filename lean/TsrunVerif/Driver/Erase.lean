import TsrunVerif.Model.Erase

/-! `tvdriver erase`: for a seed, generate a decorated program of M-Erase and print
`<render p>\t<render (strip p)>\t<plain?>` (newlines as `\n`). -/
namespace TsrunVerif.Driver.EraseGen
open TsrunVerif.Erase

abbrev G := StateM Nat

def rnd (n : Nat) : G Nat := do
  let s ← get
  let s' := (s * 6364136223846793005 + 1442695040888963407) % 18446744073709551616
  set s'
  return (s' / 4294967296) % (if n = 0 then 1 else n)

def pick {α : Type} [Inhabited α] (l : List α) : G α := do
  let i ← rnd l.length
  return l.getD i default

def chance (pct : Nat) : G Bool := do
  let r ← rnd 100
  return decide (r < pct)

def kwNames : List String := ["number", "string", "boolean", "any", "unknown", "never", "void", "null", "undefined", "object", "symbol", "bigint"]
def refNames : List String := ["Foo", "Bar", "T", "U", "Date", "RegExp"]
def genericNames : List String := ["Array", "Promise", "Map", "Record", "Partial", "Readonly", "ReadonlyArray", "Pick"]
def litTexts : List String := ["'a'", "\"b\"", "0", "1", "42", "true", "false", "-1", "null"]

partial def genTy (depth : Nat) (vars : List String) : G Ty := do
  let k ← rnd (if depth = 0 then 4 else 19)
  let sub := genTy (depth - 1) vars
  match k with
  | 0 => return .kw (← pick kwNames)
  | 1 => return .ref (← pick refNames) []
  | 2 => return .lit (← pick litTexts)
  | 3 => return .kw (← pick kwNames)
  | 4 => do
    let n ← rnd 3
    let args ← (List.range (n + 1)).mapM (fun _ => sub)
    return .ref (← pick genericNames) args
  | 5 => do
    let n ← rnd 3
    let ms ← (List.range n).mapM (fun i => do return (s!"m{i}", ← chance 30, ← sub))
    return .obj ms
  | 6 => return .arr (← sub)
  | 7 => do
    let n ← rnd 3
    return .tuple (← (List.range (n + 1)).mapM (fun _ => sub))
  | 8 => do
    let n ← rnd 3
    return .union (← (List.range (n + 2)).mapM (fun _ => sub))
  | 9 => do
    let n ← rnd 2
    return .inter (← (List.range (n + 2)).mapM (fun _ => sub))
  | 10 => do
    let n ← rnd 3
    let ps ← (List.range n).mapM (fun i => do return (s!"a{i}", ← sub))
    return .fn ps (← sub)
  | 11 => do
    let ext ← if (← chance 40) then pure (Ty.arr (.infer "I")) else sub
    return .cond (← sub) ext (← sub) (← sub)
  | 12 => return .mapped "K" (.keyof (← sub)) (← sub)
  | 13 => return .indexed (.ref (← pick refNames) []) (← pick [Ty.lit "'a'", Ty.kw "number", Ty.keyof (.ref "Foo" [])])
  | 14 => return .typeofT (← pick (if vars.isEmpty then ["Math"] else vars))
  | 15 => return .keyof (← sub)
  | 16 => return .template ["p", "q", ""] [← sub, .kw "string"]
  | 17 => return .paren (← sub)
  | _ => return .union [← sub, .kw "undefined"]

def genTParams : G (List TParam) := do
  if ← chance 60 then return []
  let n ← rnd 2
  (List.range (n + 1)).mapM (fun i => do
    let ext ← if (← chance 40) then some <$> genTy 1 [] else pure none
    let dflt ← if (← chance 30) then some <$> genTy 1 [] else pure none
    return { name := (["T", "U", "V"].getD i "W"), ext := ext, dflt := dflt })

def genTArgs (vars : List String) : G (List Ty) := do
  if ← chance 55 then return []
  let n ← rnd 2
  (List.range (n + 1)).mapM (fun _ => genTy 2 vars)

/-- return types of arrow functions must not start with `(` (TypeScript would read `(A) => …` as a
function type) -/
def genArrowRetTy (vars : List String) : G Ty := do
  let k ← rnd 7
  match k with
  | 0 => return .kw (← pick kwNames)
  | 1 => return .ref (← pick genericNames) [← genTy 2 vars]
  | 2 => return .lit (← pick ["'a'", "0", "true", "42"])
  | 3 => return .tuple [← genTy 2 vars, ← genTy 1 vars]
  | 4 => return .obj [("m", false, ← genTy 2 vars)]
  | 5 => return .typeofT (← pick (if vars.isEmpty then ["Math"] else vars))
  | _ => return .template ["p", ""] [← genTy 1 vars]

def genArrowRet (firstParam : String) (vars : List String) : G Ret := do
  let k ← rnd 10
  if k < 4 then return .none
  if k < 8 then return .ty (← genArrowRetTy vars)
  return .pred firstParam (← genArrowRetTy vars)

def genRet (firstParam : Option String) (vars : List String) : G Ret := do
  let k ← rnd 10
  if k < 4 then return .none
  if k < 8 then return .ty (← genTy 2 vars)
  match firstParam with
  | some p => if k == 8 then return .pred p (← genTy 1 vars) else return .ty (← genTy 1 vars)
  | none => return .ty (← genTy 1 vars)

/-- numeric-valued expressions over `vars` (numeric variables) and `fns` (name, arity) -/
partial def genE (depth : Nat) (vars : List String) (fns : List (String × Nat)) : G Expr := do
  let k ← rnd (if depth = 0 then 3 else 18)
  let sub := genE (depth - 1) vars fns
  match k with
  | 0 => return .num (← rnd 10)
  | 1 => if vars.isEmpty then return .num 7 else return .var (← pick vars)
  | 2 => return .num (← rnd 100)
  | 3 => return .bin (← pick ["+", "-", "*", "<", ">", "+", "|"]) (← sub) (← sub)
  | 4 =>
    if fns.isEmpty then sub else do
      let (f, ar) ← pick fns
      let args ← (List.range ar).mapM (fun _ => sub)
      return .call (.var f) (← genTArgs vars) args
  | 5 => do
    -- immediately applied arrow with typed parameters
    let p : Param := { name := "q", ty := (← if (← chance 70) then some <$> genTy 2 vars else pure none), opt := false, dflt := none }
    let body ← genE (depth - 1) ("q" :: vars) fns
    return .call (.paren (.arrow (← genTParams) [p] (← genArrowRet "q" vars) body)) [] [← sub]
  | 6 => return .asT (← sub) (← genTy 2 vars)
  | 7 => return .satisfies (← sub) (← genTy 2 vars)
  | 8 => return .angle (← genTy 2 vars) (← sub)
  | 9 => return .nonNull (← sub)
  | 10 => return .member (.nonNull (.objLit [("a", ← sub), ("b", .num 2)])) "a"
  | 11 => return .index (.nonNull (.asT (.arrLit [← sub, ← sub]) (.arr (.kw "number")))) (.num (← rnd 2))
  | 12 => return .member (.tmpl ["x", "y", ""] [.asT (← sub) (← genTy 1 vars), .nonNull (← sub)]) "length"
  | 13 => return .cond (.bin "<" (← sub) (← sub)) (← sub) (← sub)
  | 14 => return .paren (.asT (.angle (.kw "any") (← sub)) (.kw "number"))
  | 15 | 16 => do
    -- an async arrow (with type parameters, typed parameters, a Promise return type): what it returns is a promise
    -- whether or not it carries static syntax; `instanceof Promise` and the truthiness of `.then` observe that without awaiting
    let p : Param := { name := "q", ty := (← if (← chance 70) then some <$> genTy 1 vars else pure none), opt := false, dflt := none }
    let body ← genE (depth - 1) ("q" :: vars) fns
    let ret ← if (← chance 60) then pure (Ret.ty (.ref "Promise" [← genTy 1 vars])) else pure Ret.none
    let call := Expr.call (.paren (.asyncArrow (← genTParams) [p] ret body)) [] [← sub]
    if (← chance 50) then return .cond (.bin "instanceof" call (.var "Promise")) (.num 1) (.num 0)
    else return .cond (.member call "then") (.num 1) (.num 0)
  | _ => return .member (.asT (.objLit [("k", ← sub)]) (.obj [("k", false, .kw "number")])) "k"

def genParams (vars : List String) : G (List Param) := do
  let n ← rnd 3
  let req ← (List.range (n + 1)).mapM (fun i => do
    return ({ name := s!"p{i}", ty := (← if (← chance 75) then some <$> genTy 2 vars else pure none), opt := false, dflt := none } : Param))
  let extra ← rnd 3
  match extra with
  | 0 => return req ++ [{ name := "po", ty := some (← genTy 1 vars), opt := true, dflt := none }]
  | 1 => return req ++ [{ name := "pd", ty := (← if (← chance 50) then some <$> genTy 1 vars else pure none), opt := false, dflt := some (← rnd 9) }]
  | _ => return req

def requiredArity (ps : List Param) : Nat := (ps.filter (fun p => !p.opt && p.dflt.isNone)).length

def genOverloads (ps : List Param) (vars : List String) : G (List (List Param × Ret)) := do
  if ← chance 70 then return []
  let n ← rnd 2
  (List.range (n + 1)).mapM (fun _ => do
    let ps' ← ps.mapM (fun p => do return { p with ty := some (← genTy 1 vars), dflt := none, opt := p.opt || p.dflt.isSome })
    return (ps', Ret.ty (← genTy 1 vars)))

def genTypeOnly (i : Nat) (vars : List String) : G Stmt := do
  let k ← rnd 4
  match k with
  | 0 => return .typeAlias s!"Al{i}" (← genTParams) (← genTy 3 vars)
  | 1 => do
    let n ← rnd 3
    let ms ← (List.range (n + 1)).mapM (fun j => do return (s!"f{j}", ← chance 30, ← genTy 2 vars))
    let exts ← if (← chance 30) then pure [Ty.ref "Foo" []] else pure []
    return .iface s!"If{i}" (← genTParams) exts (ms ++ [("self", true, .this)])
  | 2 => return .declareVar s!"amb{i}" (← genTy 2 vars)
  | _ => return .declareFn s!"ambf{i}" (← genParams vars) (.ty (← genTy 1 vars))

def genMods : G Mods := do
  return { access := (← pick [none, none, some "public", some "private", some "protected"]),
           readonly := (← chance 25), override_ := false }

partial def genStmts (n : Nat) (idx : Nat) (depth : Nat) (vars : List String) (fns : List (String × Nat)) :
    G (List Stmt × List String × List (String × Nat)) := do
  if n = 0 then return ([], vars, fns)
  let k ← rnd 10
  match k with
  | 0 | 1 | 2 => do
    let x := s!"v{idx}"
    let e ← genE 3 vars fns
    let ty ← if (← chance 65) then some <$> genTy 2 vars else pure none
    let s := Stmt.decl (← pick ["const", "let", "var"]) x false ty e
    let (rest, vs, fs) ← genStmts (n - 1) (idx + 1) depth (x :: vars) fns
    return (s :: rest, vs, fs)
  | 3 | 4 => do
    let f := s!"f{idx}"
    let ps ← genParams vars
    let pnames := ps.map (·.name)
    let inner := pnames.filter (fun p => p != "po") ++ vars
    let (body, bvars, _) ← if depth = 0 then pure ([], inner, fns) else genStmts (← rnd 3) (idx * 10 + 100) (depth - 1) inner fns
    let result ← genE 2 bvars fns
    let s := Stmt.fn f (← genTParams) ps (← genRet pnames.head? vars) (← genOverloads ps vars) body result
    let (rest, vs, fs) ← genStmts (n - 1) (idx + 1) depth vars ((f, requiredArity ps) :: fns)
    return (s :: rest, vs, fs)
  | 5 => do
    let c := s!"C{idx}"
    let fieldInit ← genE 2 vars fns
    -- statements of the method body before its return: nested functions and classes with their own static syntax
    let (locals, lvars, lfns) ← if depth = 0 then pure ([], "a" :: vars, fns)
      else genStmts (← rnd 3) (idx * 10 + 400) (depth - 1) ("a" :: vars) fns
    let mbody ← genE 2 lvars lfns
    let mps : List Param := [{ name := "a", ty := some (← genTy 1 vars), opt := false, dflt := none }]
    let core : List Member :=
      [ .field (← genMods) false "fld" false false (← if (← chance 70) then some <$> genTy 1 vars else pure none) fieldInit,
        .field (← genMods) true "sfld" false false (some (.kw "number")) (.num (← rnd 9)),
        .method { (← genMods) with readonly := false } false "m" (← genTParams) mps (← genRet (some "a") vars) (← genOverloads mps vars) locals mbody,
        .method { (← genMods) with readonly := false } true "sm" [] mps .none [] [] (.bin "+" (.var "a") (.num 1)),
        -- a method that needs its receiver: called below through `!`, `as` and `<T>` around the callee
        .method noMods false "self" [] [] (← genRet none vars) [] [] (.member (.var "this") "fld") ]
    -- members without run-time meaning, at random positions (first, between, LAST)
    let mut members := core
    if (← chance 70) then
      let at_ ← rnd (members.length + 1)
      members := members.take at_ ++ [Member.indexSig "key" (.kw "string") (.kw "any")] ++ members.drop at_
    if (← chance 60) then
      let at_ ← rnd (members.length + 1)
      members := members.take at_ ++ [Member.declareField "dfld" (← genTy 1 vars)] ++ members.drop at_
    if (← chance 35) then
      members := members ++ [← pick [Member.indexSig "k2" (.kw "string") (.kw "unknown"), Member.declareField "dlast" (.kw "number")]]
    -- a static initialisation block (it runs, whatever stands before it): directly after a member without run-time
    -- meaning half of the time, anywhere otherwise
    if (← chance 60) then
      let blk := Member.staticBlock [Stmt.expr (.assign (.member (.var c) "sfld") (.bin "+" (.member (.var c) "sfld") (.num (1 + (← rnd 5)))))]
      let voids := (List.range members.length).filter (fun i =>
        match members[i]? with | some (Member.indexSig ..) => true | some (Member.declareField ..) => true | _ => false)
      let at_ ← if voids.isEmpty || (← chance 50) then rnd (members.length + 1) else (do let i ← pick voids; pure (i + 1))
      members := members.take at_ ++ [blk] ++ members.drop at_
    let impls ← if (← chance 30) then pure [Ty.ref "Foo" [], Ty.ref "Array" [.kw "number"]] else pure []
    let s := Stmt.cls c (← genTParams) impls members
    let o := s!"v{idx}"
    let arg ← genE 1 vars fns
    let recv := Expr.member (.newE c [] []) "self"
    let callee ← pick [recv, .nonNull recv, .paren (.asT recv (.kw "any")), .paren (.angle (.kw "any") recv),
      .paren (.nonNull recv), .nonNull (.paren (.satisfies recv (.kw "unknown")))]
    let use := Stmt.decl "const" o false (← if (← chance 50) then some <$> genTy 1 vars else pure none)
      (.bin "+" (.call (.member (.newE c (← genTArgs vars) []) "m") (← genTArgs vars) [arg])
        (.bin "+" (.member (.newE c [] []) "fld") (.bin "+" (.call (.member (.var c) "sm") [] [.member (.var c) "sfld"]) (.call callee [] []))))
    let (rest, vs, fs) ← genStmts (n - 1) (idx + 1) depth (o :: vars) fns
    return (s :: use :: rest, vs, fs)
  | 6 => do
    let c ← genE 2 vars fns
    let (thn, _, _) ← if depth = 0 then pure ([], vars, fns) else genStmts (← rnd 3) (idx * 10 + 200) (depth - 1) vars fns
    let (els, _, _) ← if depth = 0 then pure ([], vars, fns) else genStmts (← rnd 2) (idx * 10 + 300) (depth - 1) vars fns
    let (rest, vs, fs) ← genStmts (n - 1) (idx + 1) depth vars fns
    return (Stmt.ifS c thn els :: rest, vs, fs)
  | 7 | 8 => do
    let s ← genTypeOnly idx vars
    let (rest, vs, fs) ← genStmts (n - 1) (idx + 1) depth vars fns
    return (s :: rest, vs, fs)
  | _ => do
    let e ← genE 3 vars fns
    let (rest, vs, fs) ← genStmts (n - 1) (idx + 1) depth vars fns
    return (Stmt.expr e :: rest, vs, fs)

def genProg : G Prog := do
  let n ← rnd 7
  let (ss, vars, fns) ← genStmts (n + 2) 0 2 [] []
  -- only top-level variables are observable at the end
  let top := vars.filter (fun v => ss.any (fun s => match s with | .decl _ x _ _ _ => x == v | _ => false))
  let calls ← fns.mapM (fun (f, ar) => do
    let args ← (List.range ar).mapM (fun _ => do return Expr.num (← rnd 9))
    return Expr.call (.var f) [] args)
  let obs := Stmt.expr (.call (.member (.var "JSON") "stringify") [] [.arrLit (top.map Expr.var ++ calls)])
  return ss ++ [obs]

def escNl (s : String) : String := (s.replace "\\" "\\\\").replace "\n" "\\n"

end TsrunVerif.Driver.EraseGen

namespace TsrunVerif.Driver
open TsrunVerif.Erase

/-- `<seed>` → `<decorated source>\t<erased source>\t<erased program is plain>\t<decorated differs from erased>` -/
def eraseLine (line : String) : String :=
  match line.trimAscii.toString.toNat? with
  | some seed =>
    let (p, _) := (EraseGen.genProg.run (seed * 2654435761 + 12345)).run
    let q := strip p
    s!"{EraseGen.escNl (render p)}\t{EraseGen.escNl (render q)}\t{plainSs q}\t{render p != render q}"
  | none => "bad-case"

end TsrunVerif.Driver
