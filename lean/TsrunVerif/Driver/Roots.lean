import TsrunVerif.Model.Roots

namespace TsrunVerif.Driver
open TsrunVerif.Roots

/-- line: states `guards:callstack:p0.p1.…` separated by ','; for each state print the number of
guards M-Roots' invariant prescribes (`expected`) for that frame profile. -/
def rootsLine (line : String) : String :=
  ",".intercalate (((line.splitOn ",").filter (· ≠ "")).map (fun t =>
    match t.splitOn ":" with
    | [_, _, prof] =>
      match ((prof.splitOn ".").filter (· ≠ "")).filterMap String.toNat? with
      | c :: fs => toString (expected { cur := c, frames := fs, guards := 0 })
      | [] => "0"
    | _ => "?"))

end TsrunVerif.Driver
