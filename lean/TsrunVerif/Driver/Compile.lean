import TsrunVerif.Model.Compile
import TsrunVerif.Lemmas.CompileNeed
import TsrunVerif.Model.Ops
import TsrunVerif.Driver.Ops

/-!
Driver for M-Compile.
`C<TAB>stmt`           → the instruction listing of `compileProgram` (`;`-separated) and `regs=N`
`R<TAB>env<TAB>stmt`   → the final environment by the reference semantics and by compiling and
                          running the VM (over the values of M-Ops); `MISMATCH` if they differ.
Statements / expressions are prefix token strings (see `parseE` / `parseS`).
-/
namespace TsrunVerif.Driver.CompileD
open TsrunVerif.Compile TsrunVerif.RegAlloc

def binOps : List (String × BinOp × String) := [
  ("+", .add, "Add"), ("-", .sub, "Sub"), ("*", .mul, "Mul"), ("/", .div, "Div"), ("%", .mod, "Mod"), ("**", .exp, "Exp"),
  ("==", .eq, "Eq"), ("!=", .notEq, "NotEq"), ("===", .strictEq, "StrictEq"), ("!==", .strictNotEq, "StrictNotEq"),
  ("<", .lt, "Lt"), ("<=", .ltEq, "LtEq"), (">", .gt, "Gt"), (">=", .gtEq, "GtEq"),
  ("&", .bitAnd, "BitAnd"), ("|", .bitOr, "BitOr"), ("^", .bitXor, "BitXor"),
  ("<<", .lShift, "LShift"), (">>", .rShift, "RShift"), (">>>", .urShift, "URShift"),
  ("in", .in_, "In"), ("instanceof", .instanceof, "Instanceof")]

def unOps : List (String × UnOp × String) := [
  ("-", .neg, "Neg"), ("+", .plus, "Plus"), ("!", .not, "Not"), ("~", .bitNot, "BitNot"), ("void", .void, "Void"), ("typeof", .typeof, "Typeof")]

def binOfTok (t : String) : Option BinOp := (binOps.find? (·.1 == t)).map (·.2.1)
def unOfTok (t : String) : Option UnOp := (unOps.find? (·.1 == t)).map (·.2.1)
def binName (op : BinOp) : String := ((binOps.find? (·.2.1 == op)).map (·.2.2)).getD "?"
def unName (op : UnOp) : String := ((unOps.find? (·.2.1 == op)).map (·.2.2)).getD "?"
def binTok (op : BinOp) : String := ((binOps.find? (·.2.1 == op)).map (·.1)).getD "?"
def unTok (op : UnOp) : String := ((unOps.find? (·.2.1 == op)).map (·.1)).getD "?"

def asgOfTok (t : String) : Option AsgOp :=
  if t == "=" then some .assign
  else if t == "&&=" then some .andA
  else if t == "||=" then some .orA
  else if t == "??=" then some .nullishA
  else if t.endsWith "=" then (binOfTok (t.dropEnd 1).toString).map AsgOp.bin
  else none

/-- prefix-token parser; fuel = number of tokens -/
def parseE : Nat → List String → Option (Expr × List String)
  | 0, _ => none
  | fuel + 1, toks =>
    match toks with
    | "N" :: z :: rest => z.toInt?.map (fun z => (.lit (.num z), rest))
    | "S" :: s :: rest => some (.lit (.str (if s == "~" then "" else s)), rest)
    | "T" :: rest => some (.lit (.bool true), rest)
    | "F" :: rest => some (.lit (.bool false), rest)
    | "U" :: rest => some (.lit .undef, rest)
    | "Z" :: rest => some (.lit .null, rest)
    | "V" :: x :: rest => some (.var x, rest)
    | "u" :: op :: rest => do
        let op ← unOfTok op
        let (e, rest) ← parseE fuel rest
        some (.un op e, rest)
    | "b" :: op :: rest => do
        let op ← binOfTok op
        let (a, rest) ← parseE fuel rest
        let (c, rest) ← parseE fuel rest
        some (.bin op a c, rest)
    | "l" :: op :: rest => do
        let op ← (if op == "&&" then some LogOp.and else if op == "||" then some .or else if op == "??" then some .nullish else none)
        let (a, rest) ← parseE fuel rest
        let (c, rest) ← parseE fuel rest
        some (.log op a c, rest)
    | "c" :: rest => do
        let (a, rest) ← parseE fuel rest
        let (t, rest) ← parseE fuel rest
        let (f, rest) ← parseE fuel rest
        some (.cond a t f, rest)
    | "a" :: x :: op :: rest => do
        let op ← asgOfTok op
        let (e, rest) ← parseE fuel rest
        some (.asg x op e, rest)
    | "q" :: rest => do
        let (a, rest) ← parseE fuel rest
        let (c, rest) ← parseE fuel rest
        some (.seq a c, rest)
    | "p" :: x :: d :: k :: rest => some (.upd x (d == "+") (k == "pre"), rest)
    | _ => none

mutual
def parseS : Nat → List String → Option (Stmt × List String)
  | 0, _ => none
  | fuel + 1, toks =>
    match toks with
    | "E" :: rest => do
        let (e, rest) ← parseE (rest.length + 1) rest
        some (.expr e, rest)
    | "I" :: rest => do
        let (c, rest) ← parseE (rest.length + 1) rest
        let (t, rest) ← parseS fuel rest
        some (.ite c t none, rest)
    | "J" :: rest => do
        let (c, rest) ← parseE (rest.length + 1) rest
        let (t, rest) ← parseS fuel rest
        let (f, rest) ← parseS fuel rest
        some (.ite c t (some f), rest)
    | "W" :: rest => do
        let (c, rest) ← parseE (rest.length + 1) rest
        let (t, rest) ← parseS fuel rest
        some (.while_ c t, rest)
    | "D" :: rest => do
        let (t, rest) ← parseS fuel rest
        let (c, rest) ← parseE (rest.length + 1) rest
        some (.doWhile t c, rest)
    | "B" :: n :: rest => do
        let n ← n.toNat?
        let (ss, rest) ← parseL fuel n rest
        some (.block ss, rest)
    | "O" :: rest => some (.empty, rest)
    | "X" :: rest => do
        let (e, rest) ← parseE (rest.length + 1) rest
        some (.throw_ e, rest)
    | "Y" :: n :: rest => do
        let n ← n.toNat?
        let (body, rest) ← parseL fuel n rest
        match rest with
        | m :: rest => do
            let m ← m.toNat?
            let (handler, rest) ← parseL fuel m rest
            some (.tryCatch body handler, rest)
        | [] => none
    | _ => none

def parseL : Nat → Nat → List String → Option (List Stmt × List String)
  | 0, _, _ => none
  | _ + 1, 0, toks => some ([], toks)
  | fuel + 1, n + 1, toks => do
      let (s, rest) ← parseS fuel toks
      let (ss, rest) ← parseL fuel n rest
      some (s :: ss, rest)
end

def parseStmt (s : String) : Option Stmt :=
  let toks := (s.splitOn " ").filter (· != "")
  match parseS (toks.length + 1) toks with
  | some (st, []) => some st
  | _ => none

def showOp : Compile.Op → String
  | .loadNull d => s!"LoadNull {d}"
  | .loadUndef d => s!"LoadUndefined {d}"
  | .loadBool d b => s!"LoadBool {d} {b}"
  | .loadInt d z => s!"LoadInt {d} {z}"
  | .loadConstNum d z => s!"LoadConst {d} n:{z}"
  | .loadConstStr d s => s!"LoadConst {d} s:{s}"
  | .getVar d x => s!"GetVar {d} {x}"
  | .tryGetVar d x => s!"TryGetVar {d} {x}"
  | .setVar x r => s!"SetVar {x} {r}"
  | .move d r => s!"Move {d} {r}"
  | .un op d r => s!"{unName op} {d} {r}"
  | .bin op d l r => s!"{binName op} {d} {l} {r}"
  | .jump t => s!"Jump {t}"
  | .jumpIfTrue c t => s!"JumpIfTrue {c} {t}"
  | .jumpIfFalse c t => s!"JumpIfFalse {c} {t}"
  | .jumpIfNotNullish c t => s!"JumpIfNotNullish {c} {t}"
  | .pushScope => "PushScope"
  | .popScope => "PopScope"
  | .pushTry t => s!"PushTry {t} 0"
  | .popTry => "PopTry"
  | .throw_ r => s!"Throw {r}"
  | .halt => "Halt"

def compileLine (s : String) : String :=
  match parseStmt s with
  | none => "bad-case"
  | some st =>
    match compileS st { code := [], ra := RA.init } with
    | none => if needS st > 255 then "ERR" else "ERR-but-need-fits"
    | some b =>
      let structured := (codeS st 0 0).map (· ++ [Compile.Op.halt])
      if structured != some (b.code ++ [Compile.Op.halt]) then "MISMATCH compileS/codeS" else
      if b.ra.maxUsed != needS st then s!"MISMATCH maxUsed={b.ra.maxUsed} needS={needS st}" else
      ";".intercalate ((b.code ++ [Compile.Op.halt]).map showOp) ++ s!" regs={b.ra.maxUsed}"

/-! ### the M-Ops instance of `Sem` -/
open TsrunVerif.Ops in
def opsSem : Sem V String where
  lit := fun
    | .null => .null
    | .undef => .undef
    | .bool b => .bool b
    | .num z => .num (.int z)
    | .str s => .str s
  truthy := toBoolean
  nullish := fun v => v == .undef || v == .null
  un := fun op v => match unop (unTok op) v with | some r => .ok r | none => .error "unmodelled"
  bin := fun op a b =>
    match op with
    | .in_ | .instanceof => .error "TypeError"
    | _ => match binop (binTok op) a b with | some r => .ok r | none => .error "unmodelled"
  refErr := fun x => "ReferenceError:" ++ x
  ofVal := fun v => "value:" ++ TsrunVerif.Ops.showV v

def parseEnv (s : String) : Option (Env TsrunVerif.Ops.V) :=
  ((s.splitOn ",").filter (· != "")).mapM (fun kv =>
    match kv.splitOn "=" with
    | [k, v] => (TsrunVerif.Driver.parseV v).map (fun v => (k, v))
    | _ => none)

def showEnv (env : Env TsrunVerif.Ops.V) : String :=
  ",".intercalate (env.map (fun (k, v) => k ++ "=" ++ TsrunVerif.Ops.showV v))

def runLine (envS stmtS : String) : String :=
  match parseEnv envS, parseStmt stmtS with
  | some env, some st =>
    let direct : String :=
      match evalS opsSem 100000 st env with
      | some (.ok _ env') => "ok " ++ showEnv env'
      | some (.thrown e env') => "throw " ++ e ++ " " ++ showEnv env'
      | none => "timeout"
    let compiled : String :=
      match compileProgram st with
      | none => "ERR"
      | some code =>
        match run opsSem code 10000000 { pc := 0, regs := fun _ => .undef, env := env, hs := [] } with
        | some (.halt s) => "ok " ++ showEnv s.env
        | some (.throw e s) => "throw " ++ e ++ " " ++ showEnv s.env
        | some .fault => "fault"
        | some (.next _) => "fault"
        | none => "timeout"
    if direct == compiled then direct else s!"MISMATCH eval=[{direct}] vm=[{compiled}]"
  | _, _ => "bad-case"

def compileDLine (line : String) : String :=
  match line.splitOn "\t" with
  | ["C", s] => compileLine s
  | ["R", env, s] => runLine env s
  | _ => "bad-case"

end TsrunVerif.Driver.CompileD
