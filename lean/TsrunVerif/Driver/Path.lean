import TsrunVerif.Model.Path

namespace TsrunVerif.Driver
open TsrunVerif.Path

/-- case line: `<specifier>\t<importer or the token <none>>` → resolved path. -/
def pathLine (line : String) : String :=
  match line.splitOn "\t" with
  | [s, b] =>
    let base := if b = "<none>" then none else some b.toList
    String.ofList (resolve s.toList base)
  | _ => "bad-case"

end TsrunVerif.Driver
