import TsrunVerif.Model.RegAlloc

namespace TsrunVerif.Driver
open TsrunVerif.RegAlloc

/-- ops: `a` alloc · `f<r>` free · `r<n>` reserve_registers_for(n) · `s` save · `t` restore ·
`N<k>` add_number(k+0.5) · `S<k>` add_string("s<k>") · `C<k>` add_constant(Number(k+0.25)).
Observation per op: result (register / index / `E` / `-`) and `@next,max`. -/
def raLine (line : String) : String :=
  let ops := (line.splitOn ";").filter (· ≠ "")
  let (_, _, outs) := ops.foldl (fun (acc : RA × Pool × List String) op =>
    let (ra, pool, outs) := acc
    let k := (op.take 1).toString
    let arg := ((op.drop 1).toString.toNat?).getD 0
    let tail (ra : RA) := s!"@{ra.next},{ra.maxUsed}"
    if k == "a" then
      match alloc ra with
      | some (r, ra') => (ra', pool, s!"{r}{tail ra'}" :: outs)
      | none => (ra, pool, s!"E{tail ra}" :: outs)
    else if k == "f" then
      let ra' := free ra arg; (ra', pool, s!"-{tail ra'}" :: outs)
    else if k == "r" then
      match reserveFor ra arg with
      | some (r, ra') => (ra', pool, s!"{r}{tail ra'}" :: outs)
      | none => (ra, pool, s!"E{tail ra}" :: outs)
    else if k == "s" then let ra' := save ra; (ra', pool, s!"-{tail ra'}" :: outs)
    else if k == "t" then let ra' := restore ra; (ra', pool, s!"-{tail ra'}" :: outs)
    else if k == "N" || k == "S" then
      -- numbers and strings live in disjoint key spaces
      let key := if k == "N" then 2 * arg else 2 * arg + 1
      match addDedup pool key with
      | some (i, p') => (ra, p', s!"{i}#{p'.consts.length}" :: outs)
      | none => (ra, pool, s!"E#{pool.consts.length}" :: outs)
    else if k == "C" then
      match addConstant pool (2 * (arg + 1000000000)) with
      | some (i, p') => (ra, p', s!"{i}#{p'.consts.length}" :: outs)
      | none => (ra, pool, s!"E#{pool.consts.length}" :: outs)
    else (ra, pool, "bad-op" :: outs)) (RA.init, ({ consts := [] } : Pool), [])
  "|".intercalate outs.reverse

end TsrunVerif.Driver
