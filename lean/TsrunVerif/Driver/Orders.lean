import TsrunVerif.Model.Orders

namespace TsrunVerif.Driver
open TsrunVerif.Orders

/-- events `i` issue · `g` getId · `c<id>` cancel · `m<id>` mark · `r` report, comma separated;
output: the reports `ids:ids|ids:ids|…`. -/
def ordersLine (line : String) : String :=
  let evs : List Ev := ((line.splitOn ",").filter (· ≠ "")).filterMap (fun t =>
    let k := (t.take 1).toString
    let n := ((t.drop 1).toString.toNat?).getD 0
    if k == "i" then some .issue else if k == "g" then some .getId
    else if k == "c" then some (.cancel n) else if k == "m" then some (.mark n)
    else if k == "r" then some .report else none)
  let rs := reports Ledger.init evs
  "|".intercalate (rs.map (fun r =>
    ",".intercalate (r.1.map toString) ++ ":" ++ ",".intercalate (r.2.map toString)))

end TsrunVerif.Driver
