import TsrunVerif.Model.Pos
import TsrunVerif.Model.Json

namespace TsrunVerif.Driver
open TsrunVerif.Pos

def parseEntry (s : String) : Option Entry :=
  match (s.splitOn ":").map String.toNat? with
  | [some o, some st, some l, some c] => some { offset := o, span := { start := st, line := l, col := c } }
  | _ => none

/-- `L <o1,o2,…>\t<json string body>` → `line:col` of the character at each char offset;
`M <n>;<off:start:line:col,…>` → lookup for every instruction index `0..n-1`. -/
def posLine (line : String) : String :=
  if line.startsWith "L " then
    match ((line.drop 2).toString).splitOn "\t" with
    | [offs, body] =>
      match TsrunVerif.Json.unescape body.toList with
      | some src =>
        let os := (offs.splitOn ",").filterMap String.toNat?
        ",".intercalate (os.map (fun o => let p := posAfter (src.take o); s!"{o}:{p.line}:{p.col}"))
      | none => "bad-source"
    | _ => "bad-case"
  else if line.startsWith "M " then
    match ((line.drop 2).toString).splitOn ";" with
    | [n, ents] =>
      let m := (ents.splitOn ",").filterMap parseEntry
      let n := n.toNat?.getD 0
      ",".intercalate ((List.range n).map (fun i =>
        match lookup m i with
        | some sp => s!"{sp.start}:{sp.line}:{sp.col}"
        | none => "-"))
    | _ => "bad-case"
  else "bad-case"

end TsrunVerif.Driver
