import TsrunVerif.Model.Pos

/-!
# C20 — error reports point at the code that failed (the position/lookup logic)
-/
namespace TsrunVerif.Pos

/-! ## positions -/

def countLT (w : List Char) : Nat := (w.filter isLT).length

theorem posFrom_append (p : Pos) (a b : List Char) : posFrom p (a ++ b) = posFrom (posFrom p a) b := by
  simp [posFrom, List.foldl_append]

theorem posFrom_line (p : Pos) (w : List Char) : (posFrom p w).line = p.line + countLT w := by
  induction w generalizing p with
  | nil => simp [posFrom, countLT]
  | cons c t ih =>
    simp only [posFrom, List.foldl_cons] at ih ⊢
    rw [ih]
    unfold adv countLT
    by_cases h : isLT c = true
    · simp [h, List.filter_cons]; omega
    · simp [h, List.filter_cons]

theorem posFrom_col_noLT (p : Pos) (w : List Char) (h : ∀ c ∈ w, isLT c = false) :
    (posFrom p w).col = p.col + w.length := by
  induction w generalizing p with
  | nil => simp [posFrom]
  | cons c t ih =>
    simp only [posFrom, List.foldl_cons] at ih ⊢
    rw [ih _ (fun x hx => h x (by simp [hx]))]
    have hc := h c (by simp)
    simp [adv, hc]; omega

theorem posFrom_col_afterLT (p : Pos) (a : List Char) (c : Char) (b : List Char) (hc : isLT c = true)
    (hb : ∀ x ∈ b, isLT x = false) : (posFrom p (a ++ c :: b)).col = 1 + b.length := by
  rw [posFrom_append]
  simp only [posFrom, List.foldl_cons]
  have : (adv (List.foldl adv p a) c).col = 1 := by simp [adv, hc]
  have h2 := posFrom_col_noLT (adv (List.foldl adv p a) c) b hb
  simp only [posFrom] at h2
  rw [h2, this]

/-- **pos_formula**: after consuming the prefix `w`, `line = 1 + #LT(w)`. -/
theorem pos_formula_line (w : List Char) : (posAfter w).line = 1 + countLT w := posFrom_line _ w

/-- **pos_formula** (columns, no line terminator consumed yet): `column = 1 + #characters`. -/
theorem pos_formula_col_first_line (w : List Char) (h : ∀ c ∈ w, isLT c = false) :
    (posAfter w).col = 1 + w.length := posFrom_col_noLT _ w h

/-- **pos_formula** (columns): `column = 1 + #characters since the last line terminator`
(`w = a ++ c :: b` with `c` the last LT; every `w` is of this or of the previous form). -/
theorem pos_formula_col (a : List Char) (c : Char) (b : List Char) (hc : isLT c = true)
    (hb : ∀ x ∈ b, isLT x = false) : (posAfter (a ++ c :: b)).col = 1 + b.length :=
  posFrom_col_afterLT _ a c b hc hb

/-- **layout_equivariant (lines)**: inserting any text `ins` before the rest `mid` of the
prefix moves the reported line by exactly the number of line terminators inserted. -/
theorem layout_line (pre ins mid : List Char) :
    (posAfter (pre ++ ins ++ mid)).line = (posAfter (pre ++ mid)).line + countLT ins := by
  simp only [pos_formula_line, countLT, List.filter_append, List.length_append]; omega

/-- **layout_equivariant (columns)**: text inserted on an *earlier* line does not move the column… -/
theorem layout_col_earlier_line (pre ins a : List Char) (c : Char) (b : List Char) (hc : isLT c = true)
    (hb : ∀ x ∈ b, isLT x = false) :
    (posAfter (pre ++ ins ++ (a ++ c :: b))).col = (posAfter (pre ++ (a ++ c :: b))).col := by
  unfold posAfter
  have e1 : pre ++ ins ++ (a ++ c :: b) = (pre ++ ins ++ a) ++ c :: b := by simp
  have e2 : pre ++ (a ++ c :: b) = (pre ++ a) ++ c :: b := by simp
  rw [e1, e2, posFrom_col_afterLT _ _ c b hc hb, posFrom_col_afterLT _ _ c b hc hb]

/-- … and text without line terminators inserted on the *same* line moves it by its length
(tabs, CR and wide characters count one column each). -/
theorem layout_col_same_line (pre ins mid : List Char) (hi : ∀ x ∈ ins, isLT x = false)
    (hm : ∀ x ∈ mid, isLT x = false) :
    (posAfter (pre ++ ins ++ mid)).col = (posAfter (pre ++ mid)).col + ins.length := by
  unfold posAfter
  rw [posFrom_append, posFrom_append, posFrom_append, posFrom_col_noLT _ mid hm, posFrom_col_noLT _ ins hi,
    posFrom_col_noLT _ mid hm]
  omega

/-! ## source map -/

def offsets (m : List Entry) : List Nat := m.map (·.offset)

/-- invariant of the builder: entry offsets are strictly increasing and below `codeLen`. -/
def MapOk (b : Builder) : Prop :=
  (offsets b.map).Pairwise (· < ·) ∧ ∀ e ∈ b.map, e.offset < b.codeLen

theorem mapOk_init : MapOk Builder.init := by simp [MapOk, Builder.init, offsets]

theorem mapOk_step (b : Builder) (op : BOp) (h : MapOk b) : MapOk (bstep b op) := by
  cases op with
  | setSpan s => exact h
  | clearSpan => exact h
  | emit =>
    obtain ⟨h1, h2⟩ := h
    simp only [bstep, emit]
    cases hc : b.cur with
    | none =>
      simp only
      exact ⟨h1, fun e he => Nat.lt_succ_of_lt (h2 e he)⟩
    | some sp =>
      simp only
      split
      · exact ⟨h1, fun e he => Nat.lt_succ_of_lt (h2 e he)⟩
      · constructor
        · simp only [offsets, List.map_append, List.map_cons, List.map_nil]
          apply List.pairwise_append.mpr
          refine ⟨h1, by simp, ?_⟩
          intro a ha b' hb
          simp at hb; subst hb
          obtain ⟨e, he, rfl⟩ := List.mem_map.mp ha
          exact h2 e he
        · intro e he
          rcases List.mem_append.mp he with h' | h'
          · exact Nat.lt_succ_of_lt (h2 e h')
          · simp at h'; subst h'; simp

/-- **lookup_floor**: for an offset-sorted map, `lookup` returns the span of the entry with the
greatest offset ≤ `off` (every other entry at or below `off` has a smaller offset). -/
theorem lookup_floor (m : List Entry) (off : Nat) (sp : Span) (hs : (offsets m).Pairwise (· < ·))
    (h : lookup m off = some sp) :
    ∃ e ∈ m, e.span = sp ∧ e.offset ≤ off ∧ ∀ e' ∈ m, e'.offset ≤ off → e'.offset ≤ e.offset := by
  unfold lookup at h
  cases hl : (m.filter (fun e => e.offset ≤ off)).getLast? with
  | none => simp [hl] at h
  | some e =>
    simp only [hl, Option.map_some, Option.some.injEq] at h
    have hmem : e ∈ m.filter (fun e => e.offset ≤ off) := List.mem_of_getLast? hl
    have hm := List.mem_filter.mp hmem
    refine ⟨e, hm.1, h, by simpa using hm.2, ?_⟩
    intro e' he' hle
    have he'f : e' ∈ m.filter (fun e => e.offset ≤ off) := List.mem_filter.mpr ⟨he', by simpa using hle⟩
    -- the filtered list is still sorted, and `e` is its last element
    have hsf : ((m.filter (fun e => e.offset ≤ off)).map (·.offset)).Pairwise (· < ·) := by
      have : ((m.filter (fun e => e.offset ≤ off)).map (·.offset)).Sublist (offsets m) :=
        List.Sublist.map _ List.filter_sublist
      exact List.Pairwise.sublist this hs
    obtain ⟨init, hinit⟩ : ∃ init, m.filter (fun e => e.offset ≤ off) = init ++ [e] := by
      have hne : m.filter (fun e => e.offset ≤ off) ≠ [] := by intro e0; simp [e0] at hl
      refine ⟨(m.filter (fun e => e.offset ≤ off)).dropLast, ?_⟩
      have := List.dropLast_concat_getLast hne
      rw [List.getLast?_eq_some_getLast hne] at hl
      cases hl
      exact this.symm
    rw [hinit] at he'f hsf
    rcases List.mem_append.mp he'f with h1 | h1
    · simp only [List.map_append, List.map_cons, List.map_nil] at hsf
      have := (List.pairwise_append.mp hsf).2.2 e'.offset (List.mem_map.mpr ⟨e', h1, rfl⟩) e.offset (by simp)
      omega
    · simp at h1; subst h1; exact Nat.le_refl _

/-- run a list of builder ops, logging (instruction index, span current at emission). -/
def brun : Builder → List BOp → List (Nat × Option Span) → Builder × List (Nat × Option Span)
  | b, [], log => (b, log)
  | b, op :: t, log =>
    match op with
    | .emit => brun (bstep b .emit) t (log ++ [(b.codeLen, b.cur)])
    | op => brun (bstep b op) t log

def startOf (m : List Entry) (i : Nat) : Option Nat := (lookup m i).map (·.start)

theorem lookup_append_gt (m : List Entry) (e : Entry) (i : Nat) (h : i < e.offset) :
    lookup (m ++ [e]) i = lookup m i := by
  unfold lookup
  have : ¬ e.offset ≤ i := by omega
  simp [List.filter_append, this]

theorem lookup_all_le (m : List Entry) (i : Nat) (h : ∀ e ∈ m, e.offset ≤ i) :
    lookup m i = (m.getLast?).map (·.span) := by
  unfold lookup
  have : m.filter (fun e => e.offset ≤ i) = m := by
    apply List.filter_eq_self.mpr
    intro e he; simpa using h e he
  rw [this]

/-- **span_of_instr**: for every sequence of `set_span` / `clear_span` / `emit` calls, every
instruction emitted under a span `sp` is later looked up to a span that starts where `sp`
starts — i.e. the location reported for an instruction is the one set when it was emitted. -/
theorem span_of_instr (ops : List BOp) :
    ∀ (b : Builder) (log : List (Nat × Option Span)), MapOk b →
      (∀ p ∈ log, p.1 < b.codeLen ∧ ∀ sp, p.2 = some sp → startOf b.map p.1 = some sp.start) →
      ∀ p ∈ (brun b ops log).2, ∀ sp, p.2 = some sp → startOf (brun b ops log).1.map p.1 = some sp.start := by
  induction ops with
  | nil => intro b log _ hl p hp sp hsp; exact (hl p hp).2 sp hsp
  | cons op t ih =>
    intro b log hok hl
    cases op with
    | setSpan s => exact ih _ log hok hl
    | clearSpan => exact ih _ log hok hl
    | emit =>
      simp only [brun]
      apply ih _ _ (mapOk_step b .emit hok)
      intro p hp
      have hcl : (bstep b .emit).codeLen = b.codeLen + 1 := by simp [bstep, emit]
      rcases List.mem_append.mp hp with h1 | h1
      · obtain ⟨hlt, hst⟩ := hl p h1
        refine ⟨by rw [hcl]; omega, ?_⟩
        intro sp hsp
        have := hst sp hsp
        simp only [bstep, emit]
        cases hc : b.cur with
        | none => simpa using this
        | some sp' =>
          simp only
          split
          · exact this
          · unfold startOf at this ⊢
            rw [lookup_append_gt _ _ _ (by simpa using hlt)]; exact this
      · simp at h1; subst h1
        refine ⟨by rw [hcl]; simp, ?_⟩
        intro sp hsp
        simp only at hsp
        simp only [bstep, emit, hsp]
        split
        · rename_i heq
          unfold startOf
          rw [lookup_all_le _ _ (fun e he => Nat.le_of_lt (hok.2 e he))]
          simpa [lastStart, Option.map_map] using heq
        · unfold startOf lookup
          simp [List.filter_append]

/-! ## non-vacuity -/
example : posAfter "ab\r\n\tx yz".toList = { line := 3, col := 3 } := by decide
example : (brun Builder.init [.setSpan ⟨0, 1, 1⟩, .emit, .emit, .setSpan ⟨7, 2, 3⟩, .emit, .clearSpan, .emit] []).1.map
    = [⟨0, ⟨0, 1, 1⟩⟩, ⟨2, ⟨7, 2, 3⟩⟩] := by decide
example : lookup [⟨0, ⟨0, 1, 1⟩⟩, ⟨2, ⟨7, 2, 3⟩⟩] 1 = some ⟨0, 1, 1⟩ ∧ lookup [⟨0, ⟨0, 1, 1⟩⟩, ⟨2, ⟨7, 2, 3⟩⟩] 2 = some ⟨7, 2, 3⟩
    ∧ lookup [⟨3, ⟨0, 1, 1⟩⟩] 1 = none := by decide

end TsrunVerif.Pos
