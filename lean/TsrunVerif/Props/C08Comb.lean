import TsrunVerif.Model.Comb

/-!
# C08 / C07 (promise combinators) — property theorems over M-Comb

"No lost wake-ups": a combinator's result settles exactly when its inputs decide it, whatever the ORDER in
which the host settles them, and is not settled before.  `n` inputs, any `n`; every settlement order.
-/
namespace TsrunVerif.Comb

/-- value stored for input `j` by a list of fulfilments -/
def lookupF {α : Type} (fs : List (Nat × α)) (j : Nat) : Option α := (fs.find? (fun p => p.1 == j)).map (·.2)

def runF {α : Type} (dflt : α) (s : AllSt α) (fs : List (Nat × α)) : AllSt α :=
  fs.foldl (fun s p => allFulfil dflt s p.1 p.2) s

theorem lookupF_append_single {α : Type} (fs : List (Nat × α)) (i : Nat) (v : α) (j : Nat)
    (hi : lookupF fs i = none) :
    lookupF (fs ++ [(i, v)]) j = if j = i then some v else lookupF fs j := by
  unfold lookupF at *
  rw [List.find?_append]
  by_cases hj : j = i
  · subst hj
    simp only [Option.map_eq_none_iff] at hi
    simp [hi]
  · cases h : fs.find? (fun p => p.1 == j) with
    | some p => simp [hj]
    | none =>
      have : (i == j) = false := by simpa using fun h => hj h.symm
      simp [hj, this]

theorem lookupF_none_of_not_mem {α : Type} (fs : List (Nat × α)) (i : Nat) (h : i ∉ fs.map (·.1)) :
    lookupF fs i = none := by
  unfold lookupF
  simp only [Option.map_eq_none_iff, List.find?_eq_none]
  intro p hp
  simp only [beq_iff_eq]
  intro hpi
  exact h (List.mem_map.mpr ⟨p, hp, hpi⟩)

/-- the bookkeeping after `done` fulfilments of distinct inputs, not yet all of them -/
def Inv {α : Type} (n : Nat) (s : AllSt α) (done : List (Nat × α)) : Prop :=
  s.n = n ∧ s.out = .pending ∧ s.remaining = n - done.length ∧ done.length < n ∧ ∀ j, s.results j = lookupF done j

theorem inv_init {α : Type} (n : Nat) (hn : 0 < n) : Inv n (allInit n : AllSt α) [] := by
  refine ⟨rfl, ?_, rfl, hn, fun j => rfl⟩
  simp [allInit]; omega

/-- one more fulfilment of a new input: either still pending (with the slot filled), or - if it was the
    last one - fulfilled with the values in input order -/
theorem inv_step {α : Type} (dflt : α) (n : Nat) (s : AllSt α) (done : List (Nat × α)) (i : Nat) (v : α)
    (h : Inv n s done) (hi : i < n) (hnew : i ∉ done.map (·.1)) :
    (done.length + 1 < n → Inv n (allFulfil dflt s i v) (done ++ [(i, v)])) ∧
    (done.length + 1 = n → (allFulfil dflt s i v).out = .fulfilled (collect n (lookupF (done ++ [(i, v)])) dflt)) := by
  obtain ⟨hn, hout, hrem, hlen, hres⟩ := h
  have hnone : lookupF done i = none := lookupF_none_of_not_mem done i hnew
  have hri : s.results i = none := by rw [hres i]; exact hnone
  have hcond : i < s.n ∧ s.results i = none := ⟨by omega, hri⟩
  have hfun : (fun j => if j = i then some v else s.results j) = lookupF (done ++ [(i, v)]) := by
    funext j
    rw [lookupF_append_single done i v j hnone, hres j]
  constructor
  · intro hlt
    have hr : ¬ (s.remaining - 1 = 0) := by omega
    unfold allFulfil
    simp only [hout, hcond, and_self, if_true, hr, if_false]
    refine ⟨hn, rfl, ?_, ?_, ?_⟩
    · simp only [List.length_append, List.length_cons, List.length_nil]; omega
    · simp only [List.length_append, List.length_cons, List.length_nil]; omega
    · intro j; exact congrFun hfun j
  · intro heq
    have hr : s.remaining - 1 = 0 := by omega
    unfold allFulfil
    simp only [hout, hcond, and_self, if_true, hr]
    rw [hfun, hn]

theorem runF_from {α : Type} (dflt : α) (n : Nat) : ∀ (fs : List (Nat × α)) (s : AllSt α) (done : List (Nat × α)),
    Inv n s done → (∀ p ∈ fs, p.1 < n) → ((done ++ fs).map (·.1)).Nodup → done.length + fs.length ≤ n →
    (done.length + fs.length < n → Inv n (runF dflt s fs) (done ++ fs)) ∧
    (done.length + fs.length = n → fs ≠ [] → (runF dflt s fs).out = .fulfilled (collect n (lookupF (done ++ fs)) dflt))
  | [], s, done, hinv, _, _, _ => by
    simp only [runF, List.foldl_nil, List.append_nil, List.length_nil, Nat.add_zero]
    exact ⟨fun _ => hinv, fun _ h => absurd rfl h⟩
  | (i, v) :: fs, s, done, hinv, hlt, hnd, hlen => by
    have hi : i < n := hlt (i, v) List.mem_cons_self
    have hnew : i ∉ done.map (·.1) := by
      simp only [List.map_append, List.map_cons] at hnd
      have := List.nodup_append.mp hnd
      intro hmem
      exact this.2.2 i hmem i (by simp) rfl
    have hstep := inv_step dflt n s done i v hinv hi hnew
    simp only [List.length_cons] at hlen
    have hrun : runF dflt s ((i, v) :: fs) = runF dflt (allFulfil dflt s i v) fs := by simp [runF]
    have happ : done ++ (i, v) :: fs = (done ++ [(i, v)]) ++ fs := by simp
    by_cases hlast : done.length + 1 = n
    · have hfs : fs = [] := by
        cases fs with
        | nil => rfl
        | cons _ _ => simp only [List.length_cons] at hlen; omega
      subst hfs
      simp only [List.length_cons, List.length_nil]
      refine ⟨fun h => by omega, fun _ _ => ?_⟩
      rw [hrun]; simp only [runF, List.foldl_nil]
      exact hstep.2 hlast
    · have hinv' := hstep.1 (by omega)
      have ih := runF_from dflt n fs (allFulfil dflt s i v) (done ++ [(i, v)]) hinv'
        (fun p hp => hlt p (List.mem_cons_of_mem _ hp)) (by rw [← happ]; exact hnd)
        (by simp only [List.length_append, List.length_cons, List.length_nil]; omega)
      rw [hrun, happ]
      simp only [List.length_append, List.length_cons, List.length_nil] at ih ⊢
      constructor
      · intro h; exact ih.1 (by omega)
      · intro h _
        have hne : fs ≠ [] := by
          intro hfs; subst hfs; simp only [List.length_nil] at h; omega
        exact ih.2 (by omega) hne

/-- **`Promise.all` bookkeeping, any order**: after fulfilments of `k < n` distinct inputs the result is
    still pending; after the `n`-th it is fulfilled with the values in input order -/
theorem runF_spec {α : Type} (dflt : α) (n : Nat) (hn : 0 < n) (fs : List (Nat × α))
    (hlt : ∀ p ∈ fs, p.1 < n) (hnd : (fs.map (·.1)).Nodup) (hlen : fs.length ≤ n) :
    (fs.length < n → Inv n (runF dflt (allInit n) fs) fs) ∧
    (fs.length = n → (runF dflt (allInit n) fs).out = .fulfilled (collect n (lookupF fs) dflt)) := by
  have h := runF_from dflt n fs (allInit n) [] (inv_init n hn) hlt (by simpa using hnd) (by simpa using hlen)
  simp only [List.nil_append, List.length_nil, Nat.zero_add] at h
  refine ⟨h.1, fun heq => h.2 heq ?_⟩
  intro hfs; subst hfs; simp at heq; omega

/-- once settled, the result of `Promise.all` never changes -/
theorem allStep_settled (s : AllSt Int) (e : Ev) (h : s.out ≠ .pending) : (allStep s e).out = s.out := by
  cases e <;> simp only [allStep, allFulfil, allReject] <;> cases hs : s.out <;> simp_all

theorem allRun_settled (es : List Ev) : ∀ (s : AllSt Int), s.out ≠ .pending → (es.foldl allStep s).out = s.out := by
  induction es with
  | nil => intro s _; rfl
  | cons e es ih =>
    intro s h
    simp only [List.foldl_cons]
    rw [ih (allStep s e) (by rw [allStep_settled s e h]; exact h), allStep_settled s e h]

/-- fulfilment events as (input, value) pairs -/
def fuls (es : List Ev) : List (Nat × Int) := es.filterMap (fun e => match e with | .ful i v => some (i, v) | .rej _ _ => none)

def allFul (es : List Ev) : Prop := ∀ e ∈ es, ∃ i v, e = .ful i v

theorem foldl_allStep_fuls : ∀ (es : List Ev) (s : AllSt Int), allFul es →
    es.foldl allStep s = runF 0 s (fuls es) := by
  intro es
  induction es with
  | nil => intro s _; rfl
  | cons e es ih =>
    intro s h
    obtain ⟨i, v, rfl⟩ := h e List.mem_cons_self
    simp only [List.foldl_cons, fuls, List.filterMap_cons, runF]
    exact ih _ (fun e' he' => h e' (List.mem_cons_of_mem _ he'))

theorem fuls_of_allFul (es : List Ev) (h : allFul es) : (fuls es).map (·.1) = es.map Ev.idx ∧ (fuls es).length = es.length := by
  induction es with
  | nil => simp [fuls]
  | cons e es ih =>
    obtain ⟨i, v, rfl⟩ := h e List.mem_cons_self
    have := ih (fun e' he' => h e' (List.mem_cons_of_mem _ he'))
    simp only [fuls, List.filterMap_cons, List.map_cons, List.length_cons, Ev.idx] at *
    exact ⟨by rw [this.1], by rw [this.2]⟩

/-- **Promise.all, every settlement order**: if all `n` inputs are fulfilled (each once, in whatever order),
    the result is fulfilled with the values in INPUT order; with fewer fulfilments it is still pending -/
theorem all_fulfilled_any_order (n : Nat) (hn : 0 < n) (es : List Ev) (hf : allFul es)
    (hlt : ∀ e ∈ es, e.idx < n) (hnd : (es.map Ev.idx).Nodup) :
    (es.length < n → all n es = .pending) ∧
    (es.length = n → all n es = .fulfilled (collect n (lookupF (fuls es)) 0)) := by
  obtain ⟨hmap, hlen⟩ := fuls_of_allFul es hf
  have hlt' : ∀ p ∈ fuls es, p.1 < n := by
    intro p hp
    have : p.1 ∈ (fuls es).map (·.1) := List.mem_map.mpr ⟨p, hp, rfl⟩
    rw [hmap] at this
    obtain ⟨e, he, hpe⟩ := List.mem_map.mp this
    rw [← hpe]; exact hlt e he
  have hle : (fuls es).length ≤ n := by
    rw [hlen]
    have := List.Nodup.length_le_of_subset hnd (l₂ := List.range n)
      (fun i hi => by obtain ⟨e, he, rfl⟩ := List.mem_map.mp hi; exact List.mem_range.mpr (hlt e he))
    simpa using this
  have hspec := runF_spec (0 : Int) n hn (fuls es) hlt' (by rw [hmap]; exact hnd) hle
  unfold all allRun
  rw [foldl_allStep_fuls es _ hf]
  constructor
  · intro h; exact (hspec.1 (by omega)).2.1
  · intro h; exact hspec.2 (by omega)

/-- **a rejection before the last fulfilment rejects `Promise.all` with that reason**, whatever follows -/
theorem all_rejected_first (n : Nat) (hn : 0 < n) (pre post : List Ev) (i : Nat) (r : Int) (hf : allFul pre)
    (hlt : ∀ e ∈ pre, e.idx < n) (hnd : (pre.map Ev.idx).Nodup) (hlen : pre.length < n) :
    all n (pre ++ .rej i r :: post) = .rejected r := by
  have hp := (all_fulfilled_any_order n hn pre hf hlt hnd).1 hlen
  unfold all allRun at *
  rw [List.foldl_append, List.foldl_cons]
  have : (allStep (pre.foldl allStep (allInit n)) (.rej i r)).out = .rejected r := by
    simp only [allStep, allReject, hp]
  rw [allRun_settled post _ (by rw [this]; simp), this]

/-- **allSettled waits for every input and never rejects**: pending until the last input has settled,
    then fulfilled with one element per input in input order -/
theorem allSettled_waits (n : Nat) (hn : 0 < n) (es : List Ev)
    (hlt : ∀ e ∈ es, e.idx < n) (hnd : (es.map Ev.idx).Nodup) :
    (es.length < n → allSettled n es = .pending) ∧
    (es.length = n → allSettled n es = .fulfilled (collect n (lookupF (es.map (fun e => (e.idx, e.settled)))) (.fulfilled 0))) := by
  have hrun : es.foldl setStep (allInit n) = runF (Settled.fulfilled 0) (allInit n) (es.map (fun e => (e.idx, e.settled))) := by
    simp only [runF, List.foldl_map]; rfl
  have hmap : (es.map (fun e => (e.idx, e.settled))).map (·.1) = es.map Ev.idx := by simp
  have hle : es.length ≤ n := by
    have := List.Nodup.length_le_of_subset hnd (l₂ := List.range n)
      (fun i hi => by obtain ⟨e, he, rfl⟩ := List.mem_map.mp hi; exact List.mem_range.mpr (hlt e he))
    simpa using this
  have hspec := runF_spec (Settled.fulfilled 0) n hn (es.map (fun e => (e.idx, e.settled)))
    (by intro p hp; obtain ⟨e, he, rfl⟩ := List.mem_map.mp hp; exact hlt e he) (by rw [hmap]; exact hnd) (by simpa using hle)
  unfold allSettled
  rw [hrun]
  constructor
  · intro h; exact (hspec.1 (by simpa using h)).2.1
  · intro h; exact hspec.2 (by simpa using h)

/-- **no lost wake-up**: once every input has settled, `allSettled` is not pending -/
theorem allSettled_not_pending (n : Nat) (hn : 0 < n) (es : List Ev)
    (hlt : ∀ e ∈ es, e.idx < n) (hnd : (es.map Ev.idx).Nodup) (hall : es.length = n) :
    allSettled n es ≠ .pending := by
  rw [(allSettled_waits n hn es hlt hnd).2 hall]; simp

/-- **Promise.any**: the first fulfilment wins, whatever rejections came before and whatever follows -/
theorem any_first_fulfilled (n : Nat) (hn : 0 < n) (pre post : List Ev) (i : Nat) (v : Int)
    (hr : ∀ e ∈ pre, ∃ j r, e = .rej j r) (hlt : ∀ e ∈ pre, e.idx < n) (hnd : (pre.map Ev.idx).Nodup)
    (hlen : pre.length < n) :
    (any n (pre ++ .ful i v :: post)).1 = .fulfilled v := by
  have hsw : allFul (pre.map Ev.swap) := by
    intro e he
    obtain ⟨e0, he0, rfl⟩ := List.mem_map.mp he
    obtain ⟨j, r, rfl⟩ := hr e0 he0
    exact ⟨j, r, rfl⟩
  have hidx : (pre.map Ev.swap).map Ev.idx = pre.map Ev.idx := by
    simp only [List.map_map]
    apply List.map_congr_left
    intro e _; cases e <;> rfl
  have := all_rejected_first n hn (pre.map Ev.swap) (post.map Ev.swap) i v hsw
    (by intro e he; obtain ⟨e0, he0, rfl⟩ := List.mem_map.mp he; have := hlt e0 he0; cases e0 <;> simpa [Ev.swap, Ev.idx] using this)
    (by rw [hidx]; exact hnd) (by simpa using hlen)
  unfold any
  simp only [List.map_append, List.map_cons, Ev.swap, this]

/-- **Promise.any rejects only when every input has been rejected** (and then it does: no lost wake-up) -/
theorem any_all_rejected (n : Nat) (hn : 0 < n) (es : List Ev) (hr : ∀ e ∈ es, ∃ j r, e = .rej j r)
    (hlt : ∀ e ∈ es, e.idx < n) (hnd : (es.map Ev.idx).Nodup) :
    (es.length < n → (any n es).1 = .pending) ∧ (es.length = n → ∃ rs, any n es = (.rejected 0, some rs) ∧ rs.length = n) := by
  have hsw : allFul (es.map Ev.swap) := by
    intro e he
    obtain ⟨e0, he0, rfl⟩ := List.mem_map.mp he
    obtain ⟨j, r, rfl⟩ := hr e0 he0
    exact ⟨j, r, rfl⟩
  have hidx : (es.map Ev.swap).map Ev.idx = es.map Ev.idx := by
    simp only [List.map_map]
    apply List.map_congr_left
    intro e _; cases e <;> rfl
  have h := all_fulfilled_any_order n hn (es.map Ev.swap) hsw
    (by intro e he; obtain ⟨e0, he0, rfl⟩ := List.mem_map.mp he; have := hlt e0 he0; cases e0 <;> simpa [Ev.swap, Ev.idx] using this)
    (by rw [hidx]; exact hnd)
  constructor
  · intro hl
    unfold any
    rw [h.1 (by simpa using hl)]
  · intro hl
    unfold any
    rw [h.2 (by simpa using hl)]
    exact ⟨_, rfl, by simp [collect]⟩

/-- the settlement ORDER of the fulfilments does not matter to `Promise.all`: a permutation gives the same result -/
theorem lookupF_perm {α : Type} (fs fs' : List (Nat × α)) (hp : fs.Perm fs') (hnd : (fs.map (·.1)).Nodup) (j : Nat) :
    lookupF fs j = lookupF fs' j := by
  induction hp with
  | nil => rfl
  | cons x _ ih =>
    simp only [List.map_cons, List.nodup_cons] at hnd
    unfold lookupF at *
    simp only [List.find?_cons]
    split
    · rfl
    · exact ih hnd.2
  | swap x y l =>
    simp only [List.map_cons, List.nodup_cons, List.mem_cons, not_or] at hnd
    unfold lookupF
    simp only [List.find?_cons]
    cases hx : (x.1 == j) <;> cases hy : (y.1 == j) <;> simp_all
  | trans _ _ ih1 ih2 =>
    rename_i l1 l2 l3 p1 p2
    rw [ih1 hnd, ih2 ((p1.map _).nodup_iff.mp hnd)]

/-- **the order in which the host settles the inputs does not matter to `Promise.all`** -/
theorem all_order_independent (n : Nat) (hn : 0 < n) (es es' : List Ev) (hp : es.Perm es') (hf : allFul es)
    (hlt : ∀ e ∈ es, e.idx < n) (hnd : (es.map Ev.idx).Nodup) (hlen : es.length = n) :
    all n es = all n es' := by
  have hf' : allFul es' := fun e he => hf e (hp.mem_iff.mpr he)
  have hlt' : ∀ e ∈ es', e.idx < n := fun e he => hlt e (hp.mem_iff.mpr he)
  have hnd' : (es'.map Ev.idx).Nodup := (hp.map Ev.idx).nodup_iff.mp hnd
  rw [(all_fulfilled_any_order n hn es hf hlt hnd).2 hlen,
    (all_fulfilled_any_order n hn es' hf' hlt' hnd').2 (by rw [← hp.length_eq]; exact hlen)]
  have hpf : (fuls es).Perm (fuls es') := hp.filterMap _
  have hndf : ((fuls es).map (·.1)).Nodup := by rw [(fuls_of_allFul es hf).1]; exact hnd
  have : lookupF (fuls es) = lookupF (fuls es') := funext (fun j => lookupF_perm _ _ hpf hndf j)
  rw [this]

-- non-vacuity: three inputs settled out of order
example : all 3 [.ful 2 30, .ful 0 10, .ful 1 20] = .fulfilled [10, 20, 30] := by decide
example : all 3 [.ful 2 30, .rej 0 7, .ful 1 20] = .rejected 7 := by decide
example : all 3 [.ful 2 30, .ful 0 10] = .pending := by decide
example : allSettled 2 [.rej 1 5] = .pending ∧ allSettled 2 [.rej 1 5, .ful 0 3] = .fulfilled [.fulfilled 3, .rejected 5] := by decide
example : any 2 [.rej 1 5, .ful 0 3] = (.fulfilled 3, none) ∧ any 2 [.rej 1 5, .rej 0 4] = (.rejected 0, some [4, 5]) ∧ (any 2 [.rej 1 5]).1 = .pending := by decide

end TsrunVerif.Comb
