import TsrunVerif.Model.Lib

/-!
# C01 (built-in library, index arithmetic) — property theorems over M-Lib

"all argument values incl. NaN, -0, negative/fractional/out-of-range indices": every theorem below
quantifies over every list (any length) and every argument of `Arg` (absent, NaN, ±∞, every
integer, every non-integral number).  M-Lib is compared with tsrun on every list up to a length
and the whole boundary argument set by the C01 correspondence.
-/
namespace TsrunVerif.Lib

/-! ### the two clamps stay inside the list -/

theorem relIndex_le (len : Nat) (n : IntInf) : relIndex len n ≤ len := by
  cases n with
  | ninf => simp [relIndex]
  | pinf => simp [relIndex]
  | fin k =>
    simp only [relIndex]
    split
    · omega
    · exact Nat.min_le_right _ _

theorem clampIndex_le (len : Nat) (n : IntInf) : clampIndex len n ≤ len := by
  cases n <;> simp [clampIndex]
  exact Nat.min_le_right _ _

theorem relStart_le (len : Nat) (a : Arg) : relStart len a ≤ len := relIndex_le _ _

theorem relEnd_le (len : Nat) (a : Arg) : relEnd len a ≤ len := by
  cases a <;> simp [relEnd, relIndex_le]

/-- negative indices count from the end; too negative ones stop at 0 -/
theorem relIndex_neg (len k : Nat) : relIndex len (.fin (-(k : Int) - 1)) = len - (k + 1) := by
  simp only [relIndex]
  split <;> omega

/-- non-negative indices are themselves, capped at the length -/
theorem relIndex_nonneg (len k : Nat) : relIndex len (.fin (k : Int)) = min k len := by
  simp only [relIndex]
  split
  · omega
  · simp

/-- non-integral arguments truncate towards zero; NaN and `undefined` are 0 -/
theorem toIntOrInf_half_nonneg (i : Nat) : toIntOrInf (.half (i : Int)) = .fin i := by
  simp [toIntOrInf]; omega
theorem toIntOrInf_half_neg (i : Nat) : toIntOrInf (.half (-(i : Int) - 1)) = .fin (-(i : Int)) := by
  simp [toIntOrInf]; omega
theorem toIntOrInf_nan : toIntOrInf .nan = .fin 0 ∧ toIntOrInf .undef = .fin 0 := ⟨rfl, rfl⟩

/-! ### slice -/

/-- `slice` returns a contiguous part of the list: prefix ++ slice ++ suffix = list, with the prefix as
    long as the relative start -/
theorem slice_contiguous {α : Type} (l : List α) (s e : Arg) :
    ∃ pre post, l = pre ++ slice l s e ++ post ∧ pre.length = relStart l.length s := by
  refine ⟨l.take (relStart l.length s), (l.drop (relStart l.length s)).drop (relEnd l.length e - relStart l.length s), ?_, ?_⟩
  · simp only [slice, List.append_assoc, List.take_append_drop]
  · simp [List.length_take, relStart_le]

theorem slice_length {α : Type} (l : List α) (s e : Arg) :
    (slice l s e).length = relEnd l.length e - relStart l.length s := by
  have h1 := relEnd_le l.length e
  simp only [slice, List.length_take, List.length_drop]
  omega

theorem slice_length_le {α : Type} (l : List α) (s e : Arg) : (slice l s e).length ≤ l.length := by
  rw [slice_length]; have := relEnd_le l.length e; omega

/-- no arguments: a copy of the whole list -/
theorem slice_all {α : Type} (l : List α) : slice l .undef .undef = l := by
  simp [slice, relStart, relEnd, toIntOrInf, relIndex]

/-- `slice(-k)`: the last `k` elements (all of them when `k` exceeds the length) -/
theorem slice_last {α : Type} (l : List α) (k : Nat) :
    slice l (.int (-(k : Int) - 1)) .undef = l.drop (l.length - (k + 1)) := by
  simp only [slice, relStart, relEnd, toIntOrInf, relIndex_neg]
  rw [List.take_of_length_le]
  simp [List.length_drop]

/-- an end before the start gives the empty list (never a reversed or wrapped one) -/
theorem slice_empty_of_end_le_start {α : Type} (l : List α) (s e : Arg)
    (h : relEnd l.length e ≤ relStart l.length s) : slice l s e = [] := by
  have : relEnd l.length e - relStart l.length s = 0 := by omega
  simp [slice, this]

/-- slicing is insensitive to how far out of range an index is -/
theorem slice_far {α : Type} (l : List α) (s : Arg) (k : Nat) (h : l.length ≤ k) :
    slice l s (.int k) = slice l s .pinf ∧ slice l s .pinf = slice l s .undef := by
  have h1 : relEnd l.length (.int k) = l.length := by
    simp [relEnd, toIntOrInf, relIndex_nonneg, Nat.min_eq_right h]
  have h2 : relEnd l.length .pinf = l.length := rfl
  have h3 : relEnd l.length .undef = l.length := rfl
  simp [slice, h1, h2, h3]

/-! ### at -/

theorem at_nonneg {α : Type} (l : List α) (k : Nat) : at_ l (.int k) = l[k]? := by
  simp only [at_, toIntOrInf]
  split
  · omega
  · simp

/-- `at(-(k+1))` is the element `k` places before the end -/
theorem at_neg {α : Type} (l : List α) (k : Nat) :
    at_ l (.int (-(k : Int) - 1)) = if k < l.length then l[l.length - 1 - k]? else none := by
  simp only [at_, toIntOrInf]
  have h1 : (-(k : Int) - 1 < 0) := by omega
  simp only [h1, if_true]
  by_cases hk : k < l.length
  · have h2 : ¬ ((l.length : Int) + (-(k : Int) - 1) < 0) := by omega
    have h3 : ((l.length : Int) + (-(k : Int) - 1)).toNat = l.length - 1 - k := by omega
    simp [h2, h3, hk]
  · have h2 : ((l.length : Int) + (-(k : Int) - 1) < 0) := by omega
    simp [h2, hk]

theorem at_infinite {α : Type} (l : List α) : at_ l .pinf = none ∧ at_ l .ninf = none := ⟨rfl, rfl⟩

/-! ### splice -/

/-- nothing is lost and nothing invented: the removed elements are exactly the gap between the part
    kept in front and the part kept behind, and the new array is front ++ items ++ behind -/
theorem splice_partition {α : Type} (l : List α) (start dc : Option Arg) (items : List α) :
    ∃ front behind, l = front ++ (splice l start dc items).1 ++ behind ∧
      (splice l start dc items).2 = front ++ items ++ behind := by
  simp only [splice]
  generalize spliceStart l.length start = s
  generalize deleteCount l.length s start.isSome dc = d
  refine ⟨l.take s, l.drop (s + d), ?_, rfl⟩
  rw [List.append_assoc]
  have : (l.drop s).take d ++ l.drop (s + d) = l.drop s := by
    rw [← List.drop_drop]
    exact List.take_append_drop d (l.drop s)
  rw [this, List.take_append_drop]

theorem deleteCount_le (len s : Nat) (g : Bool) (dc : Option Arg) : deleteCount len s g dc ≤ len - s := by
  unfold deleteCount
  split
  · omega
  · split
    · omega
    · exact clampIndex_le _ _

theorem splice_lengths {α : Type} (l : List α) (start dc : Option Arg) (items : List α) :
    (splice l start dc items).2.length + (splice l start dc items).1.length = l.length + items.length := by
  simp only [splice]
  generalize hs : spliceStart l.length start = s
  have hsl : s ≤ l.length := by
    subst hs; cases start <;> simp [spliceStart, relStart_le]
  have hd := deleteCount_le l.length s start.isSome dc
  generalize deleteCount l.length s start.isSome dc = d at hd
  simp only [List.length_append, List.length_take, List.length_drop]
  omega

/-- `splice()` without arguments removes nothing; `splice(start)` removes everything from `start` -/
theorem splice_noargs {α : Type} (l : List α) : splice l none none ([] : List α) = ([], l) := by
  simp [splice, deleteCount, spliceStart]
theorem splice_start_only {α : Type} (l : List α) (a : Arg) :
    splice l (some a) none ([] : List α) = (l.drop (relStart l.length a), l.take (relStart l.length a)) := by
  have h := relStart_le l.length a
  simp only [splice, spliceStart, deleteCount, Option.isSome_some, Bool.not_true, Bool.false_eq_true, if_false, List.append_nil]
  have h2 : relStart l.length a + (l.length - relStart l.length a) = l.length := by omega
  rw [h2, List.drop_length, List.append_nil, List.take_of_length_le]
  simp [List.length_drop]

/-- a NaN / negative / `-∞` delete count deletes nothing: pure insertion -/
theorem splice_insert {α : Type} (l : List α) (a : Arg) (items : List α) (dc : Arg)
    (h : dc = .nan ∨ dc = .ninf ∨ dc = .int 0 ∨ ∃ k : Nat, dc = .int (-(k : Int))) :
    splice l (some a) (some dc) items =
      ([], l.take (relStart l.length a) ++ items ++ l.drop (relStart l.length a)) := by
  have hz : deleteCount l.length (relStart l.length a) true (some dc) = 0 := by
    rcases h with h | h | h | ⟨k, h⟩ <;> subst h <;> simp [deleteCount, toIntOrInf, clampIndex] <;> omega
  simp [splice, spliceStart, hz]

/-! ### fill, copyWithin, with -/

theorem fill_length {α : Type} (l : List α) (v : α) (s e : Arg) : (fill l v s e).length = l.length := by
  have h1 := relStart_le l.length s
  have h2 := relEnd_le l.length e
  simp only [fill, List.length_append, List.length_take, List.length_replicate, List.length_drop]
  omega

/-- `fill` writes `v` exactly on `[start, end)` and leaves every other element alone -/
theorem fill_get {α : Type} (l : List α) (v : α) (s e : Arg) (i : Nat) (hi : i < l.length) :
    (fill l v s e)[i]? = if relStart l.length s ≤ i ∧ i < relEnd l.length e then some v else l[i]? := by
  have h1 := relStart_le l.length s
  have h2 := relEnd_le l.length e
  generalize hk : relStart l.length s = k at *
  generalize hf : relEnd l.length e = f at *
  simp only [fill, hk, hf]
  by_cases hlt : i < k
  · have : ¬ (k ≤ i ∧ i < f) := by omega
    rw [List.append_assoc, List.getElem?_append_left (by simp [List.length_take]; omega)]
    simp [this, List.getElem?_take, hlt]
  · by_cases hin : i < f
    · have : (k ≤ i ∧ i < f) := by omega
      rw [List.getElem?_append_left (by simp [List.length_take]; omega)]
      rw [List.getElem?_append_right (by simp [List.length_take]; omega)]
      simp [this, List.length_take, List.getElem?_replicate]
      omega
    · have : ¬ (k ≤ i ∧ i < f) := by omega
      rw [List.getElem?_append_right (by simp [List.length_take]; omega)]
      simp only [List.length_append, List.length_take, List.length_replicate, this, if_false]
      rw [List.getElem?_drop]
      congr 1
      omega

theorem copyWithin_length {α : Type} (l : List α) (t s e : Arg) : (copyWithin l t s e).length = l.length := by
  have h1 := relStart_le l.length t
  have h2 := relStart_le l.length s
  have h3 := relEnd_le l.length e
  simp only [copyWithin, List.length_append, List.length_take, List.length_drop]
  omega

/-- `with` succeeds exactly for indices `−len ≤ i < len`, and then changes one element -/
theorem with_isSome_iff {α : Type} (l : List α) (k : Int) (v : α) :
    (with_ l (.int k) v).isSome = true ↔ (-(l.length : Int) ≤ k ∧ k < l.length) := by
  simp only [with_, toIntOrInf]
  have ha : actualIndex l.length k = if k < 0 then (l.length : Int) + k else k := rfl
  split
  · rename_i hc
    simp only [Option.isSome_none, Bool.false_eq_true, false_iff]
    rw [ha] at hc
    split at hc <;> omega
  · rename_i hc
    simp only [Option.isSome_some, true_iff]
    rw [ha] at hc
    split at hc <;> omega

theorem with_length {α : Type} (l l' : List α) (i : Arg) (v : α) (h : with_ l i v = some l') : l'.length = l.length := by
  unfold with_ at h
  cases hi : toIntOrInf i with
  | ninf => simp [hi] at h
  | pinf => simp [hi] at h
  | fin k =>
    simp only [hi] at h
    split at h
    · simp at h
    · simp only [Option.some.injEq] at h; subst h; simp

/-! ### indexOf -/

/-- `findFrom` returns the least index `≥ from` that satisfies the predicate -/
theorem findFrom_spec {α : Type} (p : α → Bool) : ∀ (l : List α) (i from_ r : Nat), findFrom p l i from_ = some r →
    from_ ≤ r ∧ i ≤ r ∧ (∃ x, l[r - i]? = some x ∧ p x = true) ∧
      ∀ j, i ≤ j → j < r → from_ ≤ j → ∀ y, l[j - i]? = some y → p y = false
  | [], i, from_, r, h => by simp [findFrom] at h
  | x :: xs, i, from_, r, h => by
      simp only [findFrom] at h
      by_cases hc : (i ≥ from_ && p x) = true
      · simp only [hc, if_true, Option.some.injEq] at h
        subst h
        simp only [Bool.and_eq_true, decide_eq_true_eq] at hc
        refine ⟨hc.1, Nat.le_refl _, ⟨x, by simp, hc.2⟩, ?_⟩
        intro j h1 h2; omega
      · simp only [hc] at h
        obtain ⟨a1, a2, ⟨y, a3, a4⟩, a5⟩ := findFrom_spec p xs (i + 1) from_ r h
        refine ⟨a1, by omega, ⟨y, ?_, a4⟩, ?_⟩
        · have : r - i = (r - (i + 1)) + 1 := by omega
          rw [this]; simpa using a3
        · intro j h1 h2 h3 z hz
          by_cases hji : j = i
          · subst hji
            simp only [Nat.sub_self, List.getElem?_cons_zero, Option.some.injEq] at hz
            subst hz
            simp only [Bool.and_eq_true, decide_eq_true_eq, not_and, Bool.not_eq_true] at hc
            exact hc h3
          · have : j - i = (j - (i + 1)) + 1 := by omega
            rw [this] at hz
            exact a5 j (by omega) h2 h3 z (by simpa using hz)

/-- `indexOf` finds the FIRST matching index at or after the (relative, clamped) `fromIndex` -/
theorem indexOf_first {α : Type} (eq : α → α → Bool) (l : List α) (x : α) (from_ : Arg) (r : Nat)
    (h : indexOf eq l x from_ = some r) :
    (∃ y, l[r]? = some y ∧ eq x y = true) ∧ relIndex l.length (toIntOrInf from_) ≤ r ∧
      ∀ j, relIndex l.length (toIntOrInf from_) ≤ j → j < r → ∀ y, l[j]? = some y → eq x y = false := by
  simp only [indexOf] at h
  split at h
  · simp at h
  · obtain ⟨a1, _, a3, a5⟩ := findFrom_spec (eq x) l 0 _ r h
    exact ⟨by simpa using a3, a1, fun j h1 h2 y hy => a5 j (Nat.zero_le _) h2 h1 y (by simpa using hy)⟩

/-- a `fromIndex` at or beyond the length (also `+∞`) never finds anything -/
theorem indexOf_from_beyond {α : Type} (eq : α → α → Bool) (l : List α) (x : α) (k : Nat) (h : l.length ≤ k) :
    indexOf eq l x (.int k) = none ∧ indexOf eq l x .pinf = none := by
  refine ⟨?_, rfl⟩
  simp only [indexOf, toIntOrInf, relIndex_nonneg, Nat.min_eq_right h]
  have : ∀ (l' : List α) (i : Nat), i + l'.length ≤ l.length → findFrom (eq x) l' i l.length = none := by
    intro l'
    induction l' with
    | nil => intros; rfl
    | cons y ys ih =>
      intro i hi
      simp only [List.length_cons] at hi
      simp only [findFrom]
      have : ¬ (i ≥ l.length) := by omega
      simp [this]
      exact ih (i + 1) (by omega)
  exact this l 0 (by omega)

/-! ### strings -/

/-- `substring` orders its (clamped) arguments: swapping them changes nothing -/
theorem substring_swap (s : List Char) (a b : Arg) (ha : a ≠ .undef) (hb : b ≠ .undef) :
    substring s a b = substring s b a := by
  cases a <;> cases b <;> simp_all [substring, Nat.min_comm, Nat.max_comm]

theorem substring_length_le (s : List Char) (a b : Arg) : (substring s a b).length ≤ s.length := by
  simp only [substring, List.length_take, List.length_drop]
  omega

/-- negative and NaN arguments of `substring` are 0 (no counting from the end, unlike `slice`) -/
theorem substring_neg (s : List Char) (k : Nat) (b : Arg) :
    substring s (.int (-(k : Int))) b = substring s (.int 0) b ∧ substring s .nan b = substring s (.int 0) b := by
  constructor <;> simp [substring, toIntOrInf, clampIndex] <;> omega

theorem padding_length (len : Nat) (k : Nat) (f : List Char) (hf : f ≠ []) :
    (padding len (.int k) f).length = k - len := by
  simp only [padding, toIntOrInf, Int.toNat_natCast]
  by_cases h : k ≤ len
  · simp [h] <;> omega
  · simp only [h, hf, or_self, if_false, List.length_take, List.length_flatten, List.map_replicate, List.sum_replicate_nat]
    have hpos : 0 < f.length := List.length_pos_iff.mpr hf
    have : (k - len) ≤ ((k - len) / f.length + 1) * f.length := by
      have := Nat.div_add_mod (k - len) f.length
      have hm := Nat.mod_lt (k - len) hpos
      rw [Nat.add_mul, Nat.one_mul, Nat.mul_comm]
      omega
    omega

/-- `padStart` / `padEnd` reach exactly the requested length (or keep the string when it is long enough) -/
theorem padStart_length (s : List Char) (k : Nat) (f : List Char) (hf : f ≠ []) :
    (padStart s (.int k) f).length = max s.length k ∧ (padEnd s (.int k) f).length = max s.length k := by
  simp only [padStart, padEnd, List.length_append, padding_length s.length k f hf]
  omega

theorem repeat_spec (s : List Char) (k : Nat) :
    repeat_ s (.int k) = some ((List.replicate k s).flatten) ∧ repeat_ s (.int (-(k : Int) - 1)) = none ∧
      repeat_ s .pinf = none := by
  refine ⟨by simp [repeat_, toIntOrInf], ?_, rfl⟩
  simp only [repeat_, toIntOrInf]
  split
  · rfl
  · omega

-- non-vacuity: the familiar instances
example : slice [1, 2, 3, 4, 5] (.int (-2)) .undef = [4, 5] := by decide
example : slice [1, 2, 3, 4, 5] (.half 1) (.int (-1)) = [2, 3, 4] := by decide
example : slice [1, 2, 3] .nan (.int 2) = [1, 2] ∧ slice [1, 2, 3] (.int 2) (.int 1) = [] := by decide
example : splice [1, 2, 3, 4] (some (.int 1)) (some (.int 2)) [9] = ([2, 3], [1, 9, 4]) := by decide
example : splice [1, 2, 3, 4] (some (.int (-1))) none [] = ([4], [1, 2, 3]) := by decide
example : at_ [1, 2, 3] (.int (-1)) = some 3 ∧ at_ [1, 2, 3] (.int 3) = none ∧ at_ [1, 2, 3] (.half (-1)) = some 1 := by decide
example : fill [1, 2, 3, 4] 0 (.int 1) (.int (-1)) = [1, 0, 0, 4] := by decide
example : copyWithin [1, 2, 3, 4, 5] (.int 0) (.int 3) .undef = [4, 5, 3, 4, 5] := by decide
example : substring "hello".toList (.int 4) (.int 1) = "ell".toList := by decide
example : padStart "5".toList (.int 3) "ab".toList = "ab5".toList := by decide

end TsrunVerif.Lib
