import TsrunVerif.Model.Ffi
/-!
C17 — the C API is memory-safe and total for every call sequence.
Property theorems over M-Ffi (`Model/Ffi.lean`).
-/
namespace TsrunVerif.Ffi

/-- executable form of `WellFormed` (evaluated by the driver on every state of every generated run) -/
def wfB (s : St) : Bool :=
  let ok (p : Prim) : Bool := match objIdOf p with | some id => decide (id < s.objs.length) | none => true
  s.vals.all (fun v => match v with | some p => ok p | none => true)
    && (List.range s.objs.length).all (fun i => (s.objs.getD i default).id == i)
    && s.objs.all (fun o => o.props.all (fun kv => ok kv.2) && o.elems.all ok)
    && s.globals.all (fun g => ok g.2.2)

theorem wf_init : wfB St.init = true := by decide

theorem getD_mem {α : Type} (l : List α) (i : Nat) (d x : α) (h : l.getD i d = x) (hx : x ≠ d) : x ∈ l := by
  by_cases hi : i < l.length
  · have : l.getD i d = l[i] := by simp [List.getD, hi]
    rw [this] at h; rw [← h]; exact List.getElem_mem hi
  · have : l.getD i d = d := by simp [List.getD, List.getElem?_eq_none (Nat.le_of_not_lt hi)]
    rw [this] at h; exact absurd h.symm hx

theorem sanitize_objId (s : St) (q : Prim) (id : Nat) (h : objIdOf (sanitize s q) = some id) : objIdOf q = some id := by
  unfold sanitize at h
  split at h
  · split at h
    · exact h
    · simp [objIdOf] at h
  · exact h

theorem sanitize_congr (s₁ s₂ : St) (ho : s₁.objs = s₂.objs) (hc : s₁.ctxAlive = s₂.ctxAlive) (p : Prim) :
    sanitize s₁ p = sanitize s₂ p := by
  have hf : ∀ id, findObj s₁ id = findObj s₂ id := by intro id; simp [findObj, ho]
  have : (objIdOf p >>= findObj s₁) = (objIdOf p >>= findObj s₂) := by
    cases objIdOf p with
    | none => rfl
    | some id => exact hf id
  simp only [sanitize, this, hc]

theorem sanitize_prim (s : St) (p : Prim) (h : objIdOf p = none) : sanitize s p = p := by
  simp [sanitize, h]

/-- the raw content of a value slot -/
def rawOf (s : St) (v : Int) : Option Prim := if v < 0 then none else s.vals.getD v.toNat none

theorem valOf_eq (s : St) (v : Int) : valOf s v = (rawOf s v).map (sanitize s) := by
  simp only [valOf, rawOf]; split <;> simp

theorem rawOf_mem (s : St) (o : Int) (q : Prim) (h : rawOf s o = some q) : some q ∈ s.vals := by
  unfold rawOf at h
  split at h
  · cases h
  · exact getD_mem s.vals o.toNat none (some q) h (by simp)

/-- **Reads and writes only touch objects that exist.** In a well-formed state every heap object an
operation reads or writes - whatever handles, NULLs or survivors of released contexts it is given -
is present in the store. -/
theorem touches_exist (s : St) (h : WellFormed s) (op : Op) : ∀ id ∈ touches s op, id < s.objs.length := by
  have key : ∀ (o : Int) (id : Nat),
      id ∈ (match valOf s o with | some p => (objIdOf p).toList | none => []) → id < s.objs.length := by
    intro o id hid
    rw [valOf_eq] at hid
    cases hv : rawOf s o with
    | none => simp [hv] at hid
    | some q =>
      simp only [hv, Option.map_some, Option.mem_toList] at hid
      exact h.1 (some q) (rawOf_mem s o q hv) q rfl id (sanitize_objId s q id hid)
  intro id hid
  cases op <;> simp only [touches] at hid
  all_goals first | exact key _ id hid | (simp at hid)

/-- **NULL arguments are reported, never dereferenced.** With a NULL context the data operations
return their error token and change nothing but the NULL result slot. -/
theorem null_context_reported (s : St) (o v : Int) (k : Option String) (i : Nat) :
    (step s (.get (-1) o k)).2 = "err:NULL context" ∧ (step s (.set (-1) o k v)) = (s, "err:NULL context") ∧
    (step s (.del (-1) o k)) = (s, "err:NULL context") ∧ (step s (.has (-1) o k)) = (s, "false") ∧
    (step s (.keys (-1) o)) = (s, "null") ∧ (step s (.aset (-1) o i v)) = (s, "err:NULL context") ∧
    (step s (.apush (-1) o v)) = (s, "err:NULL context") ∧ (step s (.gset (-1) k v)) = (s, "err:NULL context") ∧
    (step s (.objNew (-1))).2 = "err:NULL context" ∧ (step s (.mk (-1) .undef)).2 = "null" := by
  simp [step, ctxOk, nullVal]

theorem null_value_reported (s : St) (c : Int) (k : String) (hc : ctxOk s c = true) :
    (step s (.get c (-1) (some k))).2 = "err:NULL object" ∧ (step s (.set c (-1) (some k) 0)) = (s, "err:NULL object") ∧
    (step s (.typeOf (-1))).2 = "undefined" ∧ (step s (.getStr (-1))).2 = "null" ∧ (step s (.alen (-1))).2 = "0" ∧
    (step s (.free (-1))) = (s, "ok") := by
  simp [step, hc, valOf, nullVal]

/-- **Release order is irrelevant.** Releasing a value box and releasing a context commute: the
state reached is the same whichever comes first. -/
theorem free_commutes_ctx_free (s : St) (v c : Int) :
    (step (step s (.free v)).1 (.ctxFree c)).1 = (step (step s (.ctxFree c)).1 (.free v)).1 := by
  by_cases hv : v < 0 <;> by_cases hc : (c < 0) <;> simp [step, ctxOk, hv, hc] <;>
    (split <;> simp)

theorem ctxFree_vals (s : St) (c : Int) : (step s (.ctxFree c)).1.vals = s.vals := by
  simp only [step]; split <;> rfl

/-- **Primitive values outlive their context.** What the pure getters report about a number,
string, boolean, null or undefined is the same before and after its context (or any other) is
released. -/
theorem getters_survive_ctx_free (s : St) (c v : Int) (q : Prim) (hq : rawOf s v = some q) (hprim : objIdOf q = none) :
    (step (step s (.ctxFree c)).1 (.typeOf v)).2 = (step s (.typeOf v)).2 ∧
    (step (step s (.ctxFree c)).1 (.getNum v)).2 = (step s (.getNum v)).2 ∧
    (step (step s (.ctxFree c)).1 (.getStr v)).2 = (step s (.getStr v)).2 := by
  have hraw : rawOf (step s (.ctxFree c)).1 v = some q := by
    simp only [rawOf, ctxFree_vals] at hq ⊢; exact hq
  have hv1 : valOf (step s (.ctxFree c)).1 v = some q := by rw [valOf_eq, hraw]; simp [sanitize_prim _ q hprim]
  have hv2 : valOf s v = some q := by rw [valOf_eq, hq]; simp [sanitize_prim _ q hprim]
  have t (x : St) : (step x (.typeOf v)).2 = (match valOf x v with | some p => typeName p | none => "undefined") := rfl
  have n (x : St) : (step x (.getNum v)).2 = (match valOf x v with | some (.num k) => toString k | _ => "NaN") := rfl
  have g (x : St) : (step x (.getStr v)).2 = (match valOf x v with | some (.str k) => "s:" ++ k | _ => "null") := rfl
  refine ⟨?_, ?_, ?_⟩
  · rw [t, t, hv1, hv2]
  · rw [n, n, hv1, hv2]
  · rw [g, g, hv1, hv2]

/-- **An object box that outlives its context is never dereferenced**: it reads as `undefined`, so
no operation touches the released heap through it. -/
theorem survivor_touches_nothing (s : St) (o : Int) (q : Prim) (ob : Obj)
    (hq : rawOf s o = some q) (hob : objIdOf q >>= findObj s = some ob) (hdead : s.ctxAlive.getD ob.ctx false = false)
    (c : Int) (k : Option String) :
    touches s (.get c o k) = [] ∧ touches s (.alen o) = [] ∧ (step s (.typeOf o)).2 = "undefined" := by
  have hdead' : ¬ (s.ctxAlive.getD ob.ctx false = true) := by rw [hdead]; simp
  have hv : valOf s o = some .undef := by
    rw [valOf_eq, hq]
    simp only [Option.map_some, sanitize, hob, if_neg hdead']
  refine ⟨?_, ?_, ?_⟩
  · simp [touches, hv, objIdOf]
  · simp [touches, hv, objIdOf]
  · simp [step, hv, typeName]

/-- **Two boxes, one object.** A duplicate is an independent box: releasing the original leaves the
duplicate's view unchanged. -/
theorem dup_independent (s : St) (c v : Int) (hv : 0 ≤ v) (hlt : v.toNat < s.vals.length) :
    let s1 := (step s (.dup c v)).1
    let d : Int := s.vals.length
    (step (step s1 (.free v)).1 (.typeOf d)).2 = (step s1 (.typeOf d)).2 := by
  intro s1 d
  have hnn : ¬ v < 0 := by omega
  have hne : v.toNat ≠ s.vals.length := by omega
  have hvals : (step s1 (.free v)).1.vals = s1.vals.set v.toNat none := by simp [step, hnn]
  have hd : ¬ d < 0 := by simp only [d]; omega
  have hdn : d.toNat = s.vals.length := by simp [d]
  have t (x : St) : (step x (.typeOf d)).2 = (match valOf x d with | some p => typeName p | none => "undefined") := rfl
  have hsan : ∀ p, sanitize (step s1 (.free v)).1 p = sanitize s1 p := by
    intro p; apply sanitize_congr <;> simp [step, hnn]
  have hval : valOf (step s1 (.free v)).1 d = valOf s1 d := by
    simp only [valOf, hd, ↓reduceIte, hvals, hdn]
    simp [List.getD, List.getElem?_set, hne, hsan]
    congr 1; funext p; exact hsan p
  rw [t, t, hval]

-- non-vacuity
example : (run [.ctxNew, .objNew 0, .mk 0 (.num 7), .set 0 0 (some "k") 1, .ctxFree 0, .getNum 1, .free 0, .free 1]).2 =
    ["c0", "v0:object", "v1:number", "ok", "ok", "7", "ok", "ok"] := by decide
example : wfB (run [.ctxNew, .arrNew 0, .mk 0 (.str "x"), .apush 0 0 1, .aget 0 0 0, .free 1]).1 = true := by decide

end TsrunVerif.Ffi
