import TsrunVerif.Props.C13

/-!
# C02 — garbage collection is invisible (heap layer)

Over M-Heap: a collection is the identity on the sub-graph reachable from live guards — same
reachable set, same contents, same edges — so nothing that is read through a reachable handle
can tell whether, when or how often the collector ran; and it is idempotent.  Slot *identity* of
objects allocated after a collection may differ between schedules (a freed slot may be reused);
scripts cannot observe slot identity.
-/
namespace TsrunVerif.Heap

theorem mem_rootsOf (h : Heap) (i : Nat) :
    i ∈ rootsOf h ↔ (∃ g ∈ h.guards, g.alive = true ∧ i ∈ g.roots) ∧ pooledAt h i = false := by
  unfold rootsOf
  rw [List.mem_filter, List.mem_flatMap]
  constructor
  · rintro ⟨⟨g, hg, hi⟩, hp⟩
    exact ⟨⟨g, (List.mem_filter.mp hg).1, by simpa using (List.mem_filter.mp hg).2, hi⟩, by simpa using hp⟩
  · rintro ⟨⟨g, hg, ha, hi⟩, hp⟩
    exact ⟨⟨g, List.mem_filter.mpr ⟨hg, by simpa using ha⟩, hi⟩, by simpa using hp⟩

theorem mem_succs (h : Heap) (i j : Nat) :
    j ∈ succs h i ↔ ∃ s, h.slots[i]? = some s ∧ j ∈ s.links ∧ pooledAt h j = false := by
  unfold succs
  cases hs : h.slots[i]? with
  | none => simp
  | some s => simp [List.mem_filter]

/-- **reachability is untouched by a collection** (both directions). -/
theorem collect_reach_iff (h : Heap) (i : Nat) : Reach (collect h) i ↔ Reach h i := by
  constructor
  · intro hr
    induction hr with
    | root hi =>
      have := (mem_rootsOf (collect h) _).mp hi
      exact (collect_exact h _).mp this.2
    | step _ hj ih =>
      obtain ⟨s, _, _, hp⟩ := (mem_succs (collect h) _ _).mp hj
      exact (collect_exact h _).mp hp
  · intro hr
    induction hr with
    | root hi =>
      have hm := (mem_rootsOf h _).mp hi
      apply Reach.root
      apply (mem_rootsOf (collect h) _).mpr
      refine ⟨?_, (collect_exact h _).mpr (Reach.root hi)⟩
      rw [collect_guards]; exact hm.1
    | step hri hj ih =>
      rename_i a b
      obtain ⟨s, hs, hl, _⟩ := (mem_succs h a b).mp hj
      apply Reach.step ih
      apply (mem_succs (collect h) a b).mpr
      refine ⟨s, ?_, hl, (collect_exact h b).mpr (Reach.step hri hj)⟩
      rw [collect_keeps_reachable h a hri]; exact hs

/-- **contents and edges of everything reachable are untouched** by a collection. -/
theorem collect_invisible (h : Heap) (i : Nat) (hr : Reach h i) :
    content (collect h) i = content h i ∧ (∀ j, j ∈ succs (collect h) i ↔ j ∈ succs h i) := by
  have hk := collect_keeps_reachable h i hr
  refine ⟨by simp [content, hk], ?_⟩
  intro j
  rw [mem_succs, mem_succs, hk]
  constructor
  · rintro ⟨s, hs, hl, hp⟩
    refine ⟨s, hs, hl, ?_⟩
    exact reach_not_pooled h j ((collect_exact h j).mp hp)
  · rintro ⟨s, hs, hl, hp⟩
    refine ⟨s, hs, hl, ?_⟩
    have : j ∈ succs h i := (mem_succs h i j).mpr ⟨s, hs, hl, hp⟩
    exact (collect_exact h j).mpr (Reach.step hr this)

/-- roots are untouched too. -/
theorem collect_roots (h : Heap) (i : Nat) : i ∈ rootsOf (collect h) ↔ i ∈ rootsOf h := by
  rw [mem_rootsOf, mem_rootsOf, collect_guards]
  constructor
  · rintro ⟨hg, hp⟩
    exact ⟨hg, reach_not_pooled h i ((collect_exact h i).mp hp)⟩
  · rintro ⟨hg, hp⟩
    refine ⟨hg, (collect_exact h i).mpr (Reach.root ((mem_rootsOf h i).mpr ⟨hg, hp⟩))⟩

/-- **collecting twice is collecting once** as far as the reachable graph and the set of
reclaimed slots are concerned. -/
theorem collect_idempotent (h : Heap) (i : Nat) :
    pooledAt (collect (collect h)) i = pooledAt (collect h) i := by
  cases hp : pooledAt (collect h) i with
  | false =>
    have hr : Reach h i := (collect_exact h i).mp hp
    exact (collect_exact (collect h) i).mpr ((collect_reach_iff h i).mpr hr)
  | true =>
    cases hq : pooledAt (collect (collect h)) i with
    | true => rfl
    | false =>
      have := (collect_reach_iff h i).mp ((collect_exact (collect h) i).mp hq)
      have := (collect_exact h i).mpr this
      rw [hp] at this; cases this

/-- **gc_transparent (per operation)**: an operation that is not an allocation and does not
write to slot `i` yields the same contents for a reachable slot `i` whether or not a collection
ran just before it. -/
theorem gc_transparent_step (h : Heap) (op : Op) (i : Nat) (hi : Inv h) (hr : Reach h i)
    (hw : ¬ op.writes i) :
    content (step (collect h) op) i = content (step h op) i := by
  rw [step_keeps_reachable (collect h) op i (inv_collect h hi) ((collect_reach_iff h i).mpr hr) hw,
    step_keeps_reachable h op i hi hr hw]
  exact (collect_invisible h i hr).1

/-! ## non-vacuity -/
example : Reach (collect demo) 1 :=
  (collect_reach_iff demo 1).mpr (Reach.step (i := 0) (Reach.root (by decide)) (by decide))

end TsrunVerif.Heap
