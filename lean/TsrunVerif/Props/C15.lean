import TsrunVerif.Model.Num

/-!
# C15 — numbers convert to and from text and integers exactly

Property theorems over M-Num (`Model/Num.lean`), for all integers / all digit strings /
all mantissa–exponent pairs (no enumeration of doubles).
-/
namespace TsrunVerif.Num

/-! ## ToInt32 / ToUint32 wrap modulo 2^32 (for every integer, hence every truncated double) -/

theorem toInt32Int_range (z : Int) : -2147483648 ≤ toInt32Int z ∧ toInt32Int z < 2147483648 := by
  unfold toInt32Int
  simp only
  split <;> omega

theorem toInt32Int_congr (z : Int) : (toInt32Int z - z) % 4294967296 = 0 := by
  unfold toInt32Int
  simp only
  split <;> omega

theorem toUint32Int_range (z : Int) : 0 ≤ toUint32Int z ∧ toUint32Int z < 4294967296 := by
  unfold toUint32Int; omega

theorem toUint32Int_congr (z : Int) : (toUint32Int z - z) % 4294967296 = 0 := by
  unfold toUint32Int; omega

/-- the two conversions agree modulo 2^32 (same bit pattern). -/
theorem toInt32_toUint32 (z : Int) : (toInt32Int z - toUint32Int z) % 4294967296 = 0 := by
  unfold toInt32Int toUint32Int
  simp only
  split <;> omega

/-- shift counts are taken modulo 32. -/
theorem shift_count_mod32 (b : F64) : (toUint32 b % 32).toNat < 32 := by
  have : toUint32 b % 32 < 32 := Int.emod_lt_of_pos _ (by decide)
  omega

/-- on values already in range ToInt32 is the identity (so small integers are untouched). -/
theorem toInt32Int_id (z : Int) (h1 : -2147483648 ≤ z) (h2 : z < 2147483648) : toInt32Int z = z := by
  unfold toInt32Int
  simp only
  split <;> omega

/-! ## rounding half up on the exact expansion (toFixed / toPrecision / toExponential) -/

/-- dividing by an even `d` after adding `d/2` yields the nearest multiple, ties upward:
`q·d − d/2 ≤ n < q·d + d/2`. -/
theorem roundHalfUp_nearest (n d : Nat) (hd : 0 < d) (he : d % 2 = 0) :
    ((n + d / 2) / d) * d ≤ n + d / 2 ∧ n + d / 2 < ((n + d / 2) / d) * d + d := by
  have h1 := Nat.div_add_mod (n + d / 2) d
  have h2 := Nat.mod_lt (n + d / 2) hd
  have h3 : d * ((n + d / 2) / d) = ((n + d / 2) / d) * d := Nat.mul_comm _ _
  omega

/-- an exact tie (`n` halfway between two multiples of `d`) goes up. -/
theorem roundHalfUp_tie_up (n d : Nat) (hd : 0 < d) (he : d % 2 = 0) (ht : n % d = d / 2) :
    (n + d / 2) / d = n / d + 1 := by
  have h1 := Nat.div_add_mod n d
  have hx : n + d / 2 = d * (n / d + 1) := by
    rw [Nat.mul_add, Nat.mul_one]; omega
  rw [hx, Nat.mul_div_cancel_left _ hd]

theorem pow10_even (j : Nat) (hj : 0 < j) : pow10 j % 2 = 0 := by
  unfold pow10
  cases j with
  | zero => omega
  | succ k => rw [Nat.pow_succ]; omega

theorem pow10_pos (j : Nat) : 0 < pow10 j := Nat.pow_pos (by decide)

/-- `roundFixed` with fewer requested digits than the expansion has: nearest, ties up. -/
theorem roundFixed_nearest (n k f : Nat) (h : f < k) :
    roundFixed n k f * pow10 (k - f) ≤ n + pow10 (k - f) / 2 ∧
    n + pow10 (k - f) / 2 < roundFixed n k f * pow10 (k - f) + pow10 (k - f) := by
  have hnot : ¬ f ≥ k := by omega
  simp only [roundFixed, hnot, if_false]
  exact roundHalfUp_nearest n _ (pow10_pos _) (pow10_even _ (by omega))

/-- with at least as many requested digits as the expansion has, nothing is rounded:
the printed integer denotes exactly the same value (`r / 10^f = n / 10^k`). -/
theorem roundFixed_exact_when_enough_digits (n k f : Nat) (h : k ≤ f) :
    roundFixed n k f * pow10 k = n * pow10 f := by
  have : f ≥ k := h
  simp only [roundFixed, this, if_true, pow10]
  rw [Nat.mul_assoc, ← Nat.pow_add]
  congr 2
  omega

/-- the exact expansion really is exact: `m·2^e = N / 10^k`. -/
theorem exactScaled_value (m : Nat) (e : Int) :
    (e ≥ 0 → exactScaled m e = (m * 2 ^ e.toNat, 0)) ∧
    (e < 0 → (exactScaled m e).1 * 2 ^ (-e).toNat = m * 10 ^ (exactScaled m e).2) := by
  constructor
  · intro h; simp [exactScaled, h]
  · intro h
    have hn : ¬ e ≥ 0 := by omega
    simp only [exactScaled, hn, if_false]
    rw [Nat.mul_assoc, ← Nat.mul_pow]

/-! ## notation: plain iff the decimal point position is in (-6, 21] -/

theorem digitChar_ne_e_fin : ∀ d : Fin 10, digitChar d.val ≠ 'e' ∧ digitChar d.val ≠ '.' := by decide

theorem digitChar_ne_e (d : Nat) (h : d < 10) : digitChar d ≠ 'e' := (digitChar_ne_e_fin ⟨d, h⟩).1

theorem e_not_mem_digitsStr (ds : List Nat) (h : ∀ d ∈ ds, d < 10) : 'e' ∉ digitsStr ds := by
  intro hm
  unfold digitsStr at hm
  obtain ⟨d, hd, he⟩ := List.mem_map.mp hm
  exact digitChar_ne_e d (h d hd) he

theorem e_not_mem_zeros (n : Nat) : 'e' ∉ zeros n := by
  intro hm
  have := List.eq_of_mem_replicate hm
  simp at this

/-- **notation**: the printed text contains an exponent marker iff the decimal point position
`point` (value = 0.d₁…d_k × 10^point) is outside (-6, 21], i.e. iff |x| < 1e-6 or |x| ≥ 1e21. -/
theorem layout_plain_iff (ds : List Nat) (point : Int) (hne : ds ≠ []) (hd : ∀ d ∈ ds, d < 10) :
    'e' ∈ layout ds point ↔ ¬ (-6 < point ∧ point ≤ 21) := by
  have hnd := e_not_mem_digitsStr ds hd
  have htake : ∀ n, 'e' ∉ digitsStr (ds.take n) := fun n =>
    e_not_mem_digitsStr _ (fun d h => hd d (List.mem_of_mem_take h))
  have hdrop : ∀ n, 'e' ∉ digitsStr (ds.drop n) := fun n =>
    e_not_mem_digitsStr _ (fun d h => hd d (List.mem_of_mem_drop h))
  unfold layout
  simp only
  split
  · rename_i h1
    have hk : (0 : Int) < ds.length := by
      cases ds with
      | nil => exact absurd rfl hne
      | cons a t => simp
    constructor
    · intro hm
      rcases List.mem_append.mp hm with h | h
      · exact absurd h hnd
      · exact absurd h (e_not_mem_zeros _)
    · intro hn; exfalso; apply hn; omega
  · split
    · rename_i h1 h2
      constructor
      · intro hm
        rcases List.mem_append.mp hm with h | h
        · exact absurd h (htake _)
        · rcases List.mem_cons.mp h with h' | h'
          · simp at h'
          · exact absurd h' (hdrop _)
      · intro hn; exfalso; apply hn; omega
    · split
      · rename_i h1 h2 h3
        constructor
        · intro hm
          rcases List.mem_cons.mp hm with h | h
          · simp at h
          · rcases List.mem_cons.mp h with h | h
            · simp at h
            · rcases List.mem_append.mp h with h | h
              · exact absurd h (e_not_mem_zeros _)
              · exact absurd h hnd
        · intro hn; exfalso; apply hn; omega
      · rename_i h1 h2 h3
        constructor
        · intro _; omega
        · intro _
          match ds, hne with
          | [d], _ => simp
          | d :: d2 :: rest, _ => simp

/-! ## non-vacuity / concrete instances -/
example : toInt32Int 4294967296 = 0 ∧ toInt32Int 10000000000 = 1410065408 ∧ toInt32Int (-2147483649) = 2147483647 := by decide
example : toUint32Int (-1) = 4294967295 := by decide
example : roundFixed 25 1 0 = 3 ∧ roundFixed 125 3 2 = 13 ∧ roundFixed 1005 3 2 = 101 := by decide
example : layout [1] 22 = "1e+21".toList ∧ layout [1] (-6) = "1e-7".toList ∧ layout [1] (-5) = "0.000001".toList
    ∧ layout [1, 2, 3] 1 = "1.23".toList ∧ layout [5] 21 = "500000000000000000000".toList := by decide

end TsrunVerif.Num
