import TsrunVerif.Model.RadixLit

/-!
# C15 (radix literals) — `0x…`, `0o…`, `0b…` of ANY length are read as the correctly rounded double

`radix_literal_value` keeps 120 leading bits, an exponent and one sticky bit.  Theorems: the scan loses
nothing that matters (`scan_inv`), rounding the kept mantissa with the sticky bit at the mantissa's
own rounding position and scaling is rounding the whole integer at its rounding position
(`literal_correct`), for every digit list of every length.
-/
set_option linter.unusedVariables false

namespace TsrunVerif.RadixLit

theorem or_one (m : Nat) : m ||| 1 = if m % 2 = 0 then m + 1 else m := by
  apply Nat.eq_of_testBit_eq
  intro i
  rw [Nat.testBit_or]
  split
  · rename_i h
    cases i with
    | zero => simp [Nat.testBit_zero, h]; omega
    | succ j =>
      simp [Nat.testBit_succ]
      congr 1
      omega
  · rename_i h
    cases i with
    | zero => simp [Nat.testBit_zero]; omega
    | succ j => simp [Nat.testBit_succ]

/-! ### arithmetic of `n = m · 2^D + L` with `L < 2^D` -/

theorem lt_iff (A H P L : Nat) (hL : L < P) : A * P + L < H * P ↔ A < H := by
  constructor
  · intro h
    apply Nat.lt_of_not_le
    intro hle
    have : H * P ≤ A * P := Nat.mul_le_mul_right P hle
    omega
  · intro h
    have : (A + 1) * P ≤ H * P := Nat.mul_le_mul_right P h
    rw [Nat.succ_mul] at this
    omega

theorem gt_iff (A H P L : Nat) (hL : L < P) : H * P < A * P + L ↔ H < A ∨ (H = A ∧ 0 < L) := by
  constructor
  · intro h
    by_cases hlt : H < A
    · exact Or.inl hlt
    · have hle : A ≤ H := Nat.le_of_not_lt hlt
      rcases Nat.lt_or_eq_of_le hle with h1 | h1
      · have : (A + 1) * P ≤ H * P := Nat.mul_le_mul_right P h1
        rw [Nat.succ_mul] at this
        omega
      · subst h1
        exact Or.inr ⟨rfl, by omega⟩
  · rintro (h | ⟨rfl, h⟩)
    · have : (H + 1) * P ≤ A * P := Nat.mul_le_mul_right P h
      rw [Nat.succ_mul] at this
      omega
    · omega

theorem div_split (m D j L : Nat) (hL : L < 2 ^ D) : (m * 2 ^ D + L) / 2 ^ (D + j) = m / 2 ^ j := by
  rw [Nat.pow_add, ← Nat.div_div_eq_div_mul]
  have : (m * 2 ^ D + L) / 2 ^ D = m := by
    rw [Nat.add_comm, Nat.add_mul_div_right _ _ (Nat.two_pow_pos D), Nat.div_eq_of_lt hL, Nat.zero_add]
  rw [this]

theorem mod_split (m D j L : Nat) (hL : L < 2 ^ D) :
    (m * 2 ^ D + L) % 2 ^ (D + j) = (m % 2 ^ j) * 2 ^ D + L := by
  rw [Nat.pow_add, Nat.mod_mul]
  have h1 : (m * 2 ^ D + L) % 2 ^ D = L := by
    rw [Nat.add_comm, Nat.add_mul_mod_self_right, Nat.mod_eq_of_lt hL]
  have h2 : (m * 2 ^ D + L) / 2 ^ D = m := by
    rw [Nat.add_comm, Nat.add_mul_div_right _ _ (Nat.two_pow_pos D), Nat.div_eq_of_lt hL, Nat.zero_add]
  rw [h1, h2, Nat.mul_comm (2 ^ D)]
  omega

/-- rounding at position `D + j` only looks at `m / 2^j`, at how `m % 2^j` compares with `2^(j-1)`, and
    at whether `L` is zero -/
theorem rneAt_split (m D j L : Nat) (hL : L < 2 ^ D) (hj : 1 ≤ j) :
    rneAt (D + j) (m * 2 ^ D + L) =
      (if m % 2 ^ j < 2 ^ (j - 1) then m / 2 ^ j
       else if 2 ^ (j - 1) < m % 2 ^ j ∨ (2 ^ (j - 1) = m % 2 ^ j ∧ 0 < L) then m / 2 ^ j + 1
       else if m / 2 ^ j % 2 = 0 then m / 2 ^ j else m / 2 ^ j + 1) * 2 ^ (D + j) := by
  simp only [rneAt, div_split m D j L hL, mod_split m D j L hL]
  have hpow : 2 ^ (D + j) = 2 * (2 ^ (j - 1) * 2 ^ D) := by
    have h1 : 2 ^ j = 2 ^ (j - 1) * 2 := by
      have : j = (j - 1) + 1 := by omega
      calc 2 ^ j = 2 ^ ((j - 1) + 1) := by rw [← this]
        _ = 2 ^ (j - 1) * 2 := Nat.pow_succ _ _
    rw [Nat.pow_add, h1]
    ac_rfl
  have c1 : 2 * (m % 2 ^ j * 2 ^ D + L) < 2 ^ (D + j) ↔ m % 2 ^ j < 2 ^ (j - 1) := by
    rw [hpow]
    have := lt_iff (m % 2 ^ j) (2 ^ (j - 1)) (2 ^ D) L hL
    omega
  have c2 : 2 ^ (D + j) < 2 * (m % 2 ^ j * 2 ^ D + L) ↔ 2 ^ (j - 1) < m % 2 ^ j ∨ (2 ^ (j - 1) = m % 2 ^ j ∧ 0 < L) := by
    rw [hpow]
    have := gt_iff (m % 2 ^ j) (2 ^ (j - 1)) (2 ^ D) L hL
    omega
  by_cases h1 : m % 2 ^ j < 2 ^ (j - 1)
  · simp [h1, c1.mpr h1]
  · have n1 : ¬ 2 * (m % 2 ^ j * 2 ^ D + L) < 2 ^ (D + j) := fun h => h1 (c1.mp h)
    simp only [h1, n1, if_false]
    by_cases h2 : 2 ^ (j - 1) < m % 2 ^ j ∨ (2 ^ (j - 1) = m % 2 ^ j ∧ 0 < L)
    · simp [h2, c2.mpr h2]
    · have n2 : ¬ 2 ^ (D + j) < 2 * (m % 2 ^ j * 2 ^ D + L) := fun h => h2 (c2.mp h)
      simp only [h2, n2, if_false]
      split <;> rfl

/-- **the sticky bit suffices**: rounding `m · 2^D + L` (`0 < L < 2^D`) at any position at least two
    bits above `D` is rounding `(m | 1) · 2^D` -/
theorem rneAt_sticky (m D j L : Nat) (hL : L < 2 ^ D) (hL0 : 0 < L) (hj : 2 ≤ j) :
    rneAt (D + j) (m * 2 ^ D + L) = rneAt (D + j) ((m ||| 1) * 2 ^ D + 0) := by
  rw [rneAt_split m D j L hL (by omega), rneAt_split (m ||| 1) D j 0 (Nat.two_pow_pos D) (by omega), or_one]
  have hH : 2 ^ (j - 1) % 2 = 0 := by
    have : j - 1 = (j - 2) + 1 := by omega
    rw [this, Nat.pow_succ]
    omega
  have hP : 2 ^ j = 2 * 2 ^ (j - 1) := by
    have : j = (j - 1) + 1 := by omega
    rw [this, Nat.pow_succ]
    simp only [Nat.add_sub_cancel]
    omega
  by_cases hm : m % 2 = 0
  · -- m even: m | 1 = m + 1, same quotient, remainder one larger
    simp only [hm, if_true]
    have hAeven : m % 2 ^ j % 2 = 0 := by
      rw [hP, Nat.mod_mul_right_mod]; exact hm
    have hq : (m + 1) / 2 ^ j = m / 2 ^ j := by
      have h1 := Nat.div_add_mod m (2 ^ j)
      have h2 : m % 2 ^ j + 1 < 2 ^ j := by
        have := Nat.mod_lt m (Nat.two_pow_pos j)
        omega
      have : m + 1 = (m % 2 ^ j + 1) + (m / 2 ^ j) * 2 ^ j := by
        rw [Nat.mul_comm]; omega
      rw [this, Nat.add_mul_div_right _ _ (Nat.two_pow_pos j), Nat.div_eq_of_lt h2, Nat.zero_add]
    have hr : (m + 1) % 2 ^ j = m % 2 ^ j + 1 := by
      have h2 : m % 2 ^ j + 1 < 2 ^ j := by
        have := Nat.mod_lt m (Nat.two_pow_pos j)
        omega
      have h1 := Nat.div_add_mod m (2 ^ j)
      have : m + 1 = (m % 2 ^ j + 1) + (m / 2 ^ j) * 2 ^ j := by
        rw [Nat.mul_comm]; omega
      rw [this, Nat.add_mul_mod_self_right, Nat.mod_eq_of_lt h2]
    rw [hq, hr]
    by_cases c : m % 2 ^ j < 2 ^ (j - 1)
    · have : m % 2 ^ j + 1 < 2 ^ (j - 1) := by omega
      simp [c, this]
    · have c' : ¬ m % 2 ^ j + 1 < 2 ^ (j - 1) := by omega
      have g1 : 2 ^ (j - 1) < m % 2 ^ j ∨ (2 ^ (j - 1) = m % 2 ^ j ∧ 0 < L) := by
        rcases Nat.lt_or_eq_of_le (Nat.le_of_not_lt c) with h | h
        · exact Or.inl h
        · exact Or.inr ⟨h, hL0⟩
      have g2 : 2 ^ (j - 1) < m % 2 ^ j + 1 ∨ (2 ^ (j - 1) = m % 2 ^ j + 1 ∧ 0 < 0) := Or.inl (by omega)
      simp only [c, c', g1, g2, if_false, if_true]
  · -- m odd: m | 1 = m; the remainder is odd, so it is not the (even) half
    simp only [hm, if_false]
    have hAodd : m % 2 ^ j % 2 = 1 := by
      rw [hP, Nat.mod_mul_right_mod]; omega
    have hne : 2 ^ (j - 1) ≠ m % 2 ^ j := by omega
    by_cases c : m % 2 ^ j < 2 ^ (j - 1)
    · simp [c]
    · have g : 2 ^ (j - 1) < m % 2 ^ j := by omega
      simp [c, g]

/-- scaling by a power of two commutes with rounding -/
theorem rneAt_scale (x D j : Nat) (hj : 1 ≤ j) : rneAt (D + j) (x * 2 ^ D + 0) = rneAt j x * 2 ^ D := by
  rw [rneAt_split x D j 0 (Nat.two_pow_pos D) hj]
  have h0 := rneAt_split x 0 j 0 (by simp) hj
  simp only [Nat.pow_zero, Nat.mul_one, Nat.add_zero, Nat.zero_add] at h0
  rw [h0, Nat.pow_add, Nat.mul_assoc, Nat.mul_comm (2 ^ j) (2 ^ D)]

/-! ### the scan -/

def Inv (a : Acc) (v : Nat) : Prop :=
  ∃ L, v = a.m * 2 ^ a.dropped + L ∧ L < 2 ^ a.dropped ∧ (a.sticky = true ↔ 0 < L) ∧ (0 < a.dropped → 2 ^ 120 ≤ a.m)

theorem inv_step (k : Nat) (a : Acc) (v d : Nat) (hd : d < 2 ^ k) (h : Inv a v) :
    Inv (stepDigit k a d) (v * 2 ^ k + d) := by
  obtain ⟨L, hv, hL, hs, hm⟩ := h
  unfold stepDigit
  split
  · rename_i hsmall
    have hlt : a.m < 2 ^ 120 := by
      rcases Nat.lt_or_ge a.m (2 ^ 120) with h | h
      · exact h
      · have := Nat.div_pos h (Nat.two_pow_pos 120); omega
    have hd0 : a.dropped = 0 := by
      rcases Nat.eq_zero_or_pos a.dropped with h | h
      · exact h
      · have := hm h; omega
    have hL0 : L = 0 := by rw [hd0] at hL; simpa using hL
    refine ⟨0, ?_, by simp [hd0], ?_, ?_⟩
    · subst hL0; simp [hd0] at hv ⊢; rw [hv]
    · subst hL0
      constructor
      · intro h; have := hs.mp h; omega
      · intro h; omega
    · intro h; simp [hd0] at h
  · rename_i hbig
    have hge : 2 ^ 120 ≤ a.m := by
      rcases Nat.lt_or_ge a.m (2 ^ 120) with h | h
      · exact absurd (Nat.div_eq_of_lt h) hbig
      · exact h
    refine ⟨L * 2 ^ k + d, ?_, ?_, ?_, fun _ => hge⟩
    · simp only []
      rw [hv, Nat.pow_add, Nat.add_mul, Nat.mul_assoc, Nat.add_assoc]
    · simp only []
      rw [Nat.pow_add]
      have : (L + 1) * 2 ^ k ≤ 2 ^ a.dropped * 2 ^ k := Nat.mul_le_mul_right _ hL
      rw [Nat.succ_mul] at this
      omega
    · simp only [Bool.or_eq_true, bne_iff_ne, ne_eq]
      constructor
      · rintro (h | h)
        · have := hs.mp h
          have : 0 < L * 2 ^ k := Nat.mul_pos this (Nat.two_pow_pos k)
          omega
        · omega
      · intro h
        by_cases hd0 : d = 0
        · left
          apply hs.mpr
          subst hd0
          rcases Nat.eq_zero_or_pos L with h0 | h0
          · subst h0; simp at h
          · exact h0
        · right; exact hd0

theorem scan_inv_aux (k : Nat) : ∀ (ds : List Nat) (a : Acc) (v : Nat), (∀ d ∈ ds, d < 2 ^ k) → Inv a v →
    Inv (ds.foldl (stepDigit k) a) (ds.foldl (fun a d => a * 2 ^ k + d) v)
  | [], a, v, _, h => h
  | d :: ds, a, v, hd, h => by
    simp only [List.foldl_cons]
    exact scan_inv_aux k ds _ _ (fun x hx => hd x (List.mem_cons_of_mem _ hx))
      (inv_step k a v d (hd d List.mem_cons_self) h)

/-- **the scan loses nothing that matters**: the digits' integer is `mantissa · 2^dropped + L` with
    `L < 2^dropped`, the sticky flag says whether `L` is non-zero -/
theorem scan_inv (k : Nat) (ds : List Nat) (hd : ∀ d ∈ ds, d < 2 ^ k) : Inv (scan k ds) (value k ds) :=
  scan_inv_aux k ds ⟨0, 0, false⟩ 0 hd ⟨0, by simp, by simp, by simp, by simp⟩

/-- **radix literals of any length are correctly rounded**: when `j` is the rounding position of the
    kept mantissa (`2^(52+j) ≤ mantissa < 2^(53+j)`, `j ≥ 2` - always so once digits were dropped,
    because then the mantissa has at least 121 bits), the lexer's result - the mantissa rounded at `j`,
    scaled by `2^dropped` - is the digits' integer rounded at `dropped + j`, which is that integer's own
    rounding position (`value_bracket`) -/
theorem literal_correct (k : Nat) (ds : List Nat) (hd : ∀ d ∈ ds, d < 2 ^ k) (j : Nat) (hj : 2 ≤ j) :
    literal k ds j = rneAt ((scan k ds).dropped + j) (value k ds) := by
  obtain ⟨L, hv, hL, hs, hm⟩ := scan_inv k ds hd
  unfold literal mant
  rw [hv]
  by_cases hst : (scan k ds).sticky = true
  · have hL0 := hs.mp hst
    simp only [hst, if_true]
    rw [rneAt_sticky _ _ j L hL hL0 hj, rneAt_scale _ _ j (by omega)]
  · have hL0 : L = 0 := by
      rcases Nat.eq_zero_or_pos L with h | h
      · exact h
      · exact absurd (hs.mpr h) hst
    subst hL0
    simp only [hst]
    rw [rneAt_scale _ _ j (by omega)]
    rfl

/-- the rounding position of the whole integer is the mantissa's plus the dropped bits -/
theorem value_bracket (k : Nat) (ds : List Nat) (hd : ∀ d ∈ ds, d < 2 ^ k) (j : Nat) (hj : 1 ≤ j)
    (hlo : 2 ^ (52 + j) ≤ mant (scan k ds)) (hhi : mant (scan k ds) < 2 ^ (53 + j)) :
    2 ^ (52 + j + (scan k ds).dropped) ≤ value k ds ∧ value k ds < 2 ^ (53 + j + (scan k ds).dropped) := by
  obtain ⟨L, hv, hL, hs, hm⟩ := scan_inv k ds hd
  have hEven : 2 ^ (52 + j) % 2 = 0 := by
    have : 52 + j = (51 + j) + 1 := by omega
    rw [this, Nat.pow_succ]; omega
  -- bounds on m from bounds on mant
  have hmlo : 2 ^ (52 + j) ≤ (scan k ds).m := by
    unfold mant at hlo
    split at hlo
    · rw [or_one] at hlo
      split at hlo
      · omega
      · exact hlo
    · exact hlo
  have hmhi : (scan k ds).m + 1 ≤ 2 ^ (53 + j) := by
    unfold mant at hhi
    split at hhi
    · rw [or_one] at hhi
      split at hhi <;> omega
    · omega
  rw [hv]
  constructor
  · rw [Nat.pow_add]
    have := Nat.mul_le_mul_right (2 ^ (scan k ds).dropped) hmlo
    omega
  · rw [Nat.pow_add]
    have := Nat.mul_le_mul_right (2 ^ (scan k ds).dropped) hmhi
    rw [Nat.succ_mul] at this
    omega

-- non-vacuity / examples: 0x20000000000001 followed by 20 zeros and a 1 (35 hex digits): the tie is broken upwards
example : (scan 4 ([2] ++ List.replicate 12 0 ++ [1] ++ List.replicate 20 0 ++ [1])).dropped = 16 := by decide
example : (scan 4 ([2] ++ List.replicate 12 0 ++ [1] ++ List.replicate 20 0 ++ [1])).sticky = true := by decide
example : rneAt 2 5 = 4 ∧ rneAt 2 6 = 8 ∧ rneAt 2 7 = 8 ∧ rneAt 2 10 = 8 ∧ rneAt 2 14 = 16 := by decide

end TsrunVerif.RadixLit
