import TsrunVerif.Model.Json

/-!
# C16 — data crosses the JSON boundary without loss

Property theorems over M-Json, for every document / every string (structural induction, no
size bound).
-/
namespace TsrunVerif.Json

/-! ## keys: canonicalisation loses nothing -/

/-- `key.to_string()` of the canonical key is the original text, for every string. -/
theorem key_canon (s : List Char) : keyToString (propertyKey s) = s := by
  unfold propertyKey
  split
  · split
    · rename_i h; simpa [keyToString] using h.2
    · rfl
  · rfl

/-- hence two different JSON keys never collide after canonicalisation. -/
theorem propertyKey_injective (a b : List Char) (h : propertyKey a = propertyKey b) : a = b := by
  have := congrArg keyToString h
  rwa [key_canon, key_canon] at this

/-! ## host round trip: a document handed in reads back as the same document -/

/-- numbers that survive: finite and not negative zero (JSON has no -0 after a round trip
through a double and `JSON.stringify(-0) = "0"`). -/
def NumOk (bits : Nat) : Prop := isFiniteBits bits = true ∧ bits ≠ 2 ^ 63

mutual
  inductive Clean : Json → Prop
    | null : Clean .null
    | bool (b) : Clean (.bool b)
    | num (n) : NumOk n → Clean (.num n)
    | str (s) : Clean (.str s)
    | arr (l) : CleanList l → Clean (.arr l)
    | obj (kvs) : CleanKvs kvs → Clean (.obj kvs)
  inductive CleanList : List Json → Prop
    | nil : CleanList []
    | cons (j t) : Clean j → CleanList t → CleanList (j :: t)
  inductive CleanKvs : List (List Char × Json) → Prop
    | nil : CleanKvs []
    | cons (k j t) : Clean j → CleanKvs t → CleanKvs ((k, j) :: t)
end

theorem hasJsonForm_fromJson (j : Json) : hasJsonForm (fromJson j) = true := by
  cases j <;> simp [fromJson, hasJsonForm]

mutual
  /-- **host_roundtrip**: `js_value_to_json (json_to_js_value d) = d`. -/
  theorem host_roundtrip : ∀ (d : Json), Clean d → toJson (fromJson d) = d
    | .null, _ => by simp [fromJson, toJson]
    | .bool b, _ => by simp [fromJson, toJson]
    | .num n, h => by
      cases h with
      | num _ hn =>
        have h1 : isFiniteBits n = true := hn.1
        have h2 : (n == 2 ^ 63) = false := by simpa using hn.2
        simp [fromJson, toJson, h1, h2]
    | .str s, _ => by simp [fromJson, toJson]
    | .arr l, h => by
      cases h with
      | arr _ hl => simp [fromJson, toJson, host_roundtrip_list l hl]
    | .obj kvs, h => by
      cases h with
      | obj _ hk => simp [fromJson, toJson, host_roundtrip_kvs kvs hk]
  theorem host_roundtrip_list : ∀ (l : List Json), CleanList l → toJsonList (fromJsonList l) = l
    | [], _ => by simp [fromJsonList, toJsonList]
    | j :: t, h => by
      cases h with
      | cons _ _ hj ht => simp [fromJsonList, toJsonList, host_roundtrip j hj, host_roundtrip_list t ht]
  theorem host_roundtrip_kvs : ∀ (kvs : List (List Char × Json)), CleanKvs kvs →
      toJsonProps (fromJsonKvs kvs) = kvs
    | [], _ => by simp [fromJsonKvs, toJsonProps]
    | (k, j) :: t, h => by
      cases h with
      | cons _ _ _ hj ht =>
        simp [fromJsonKvs, toJsonProps, hasJsonForm_fromJson, key_canon, host_roundtrip j hj,
          host_roundtrip_kvs t ht]
end

/-! ## script read-back: every member is found under the spelling a script uses -/

/-- **script_read_back**: reading `obj[k]` on the value built from a JSON object yields the
value built from the JSON member `k` — for every key text, including "0", "17", "01", "". -/
theorem script_read_back (kvs : List (List Char × Json)) (k : List Char) :
    getProp (fromJsonKvs kvs) k = (getMember kvs k).map fromJson := by
  induction kvs with
  | nil => simp [fromJsonKvs, getProp, getMember]
  | cons p t ih =>
    obtain ⟨k', j⟩ := p
    unfold getProp getMember at *
    simp only [fromJsonKvs, List.find?_cons]
    by_cases hk : k' = k
    · subst hk; simp
    · have h1 : (propertyKey k' == propertyKey k) = false := by
        apply beq_false_of_ne
        intro e; exact hk (propertyKey_injective _ _ e)
      have h2 : (k' == k) = false := beq_false_of_ne hk
      simp only [h1, h2]
      exact ih

/-! ## serialisation is well formed: no non-finite number, no member without a JSON form -/

mutual
  inductive WellFormed : Json → Prop
    | null : WellFormed .null
    | bool (b) : WellFormed (.bool b)
    | num (n) : isFiniteBits n = true → WellFormed (.num n)
    | str (s) : WellFormed (.str s)
    | arr (l) : WellFormedList l → WellFormed (.arr l)
    | obj (kvs) : WellFormedKvs kvs → WellFormed (.obj kvs)
  inductive WellFormedList : List Json → Prop
    | nil : WellFormedList []
    | cons (j t) : WellFormed j → WellFormedList t → WellFormedList (j :: t)
  inductive WellFormedKvs : List (List Char × Json) → Prop
    | nil : WellFormedKvs []
    | cons (k j t) : WellFormed j → WellFormedKvs t → WellFormedKvs ((k, j) :: t)
end

mutual
  /-- **stringify_wellformed**: every acyclic value serialises to a tree a conforming JSON
  writer can print (non-finite numbers have become `null`). -/
  theorem stringify_wellformed : ∀ (v : Js), WellFormed (toJson v)
    | .undef => by simp [toJson]; exact .null
    | .null => by simp [toJson]; exact .null
    | .bool b => by simp [toJson]; exact .bool b
    | .num n => by
      simp only [toJson]
      split
      · rename_i h
        apply WellFormed.num
        split
        · decide
        · exact h
      · exact .null
    | .str s => by simp [toJson]; exact .str s
    | .arr l => by simp only [toJson]; exact .arr _ (stringify_wellformed_list l)
    | .obj ps => by simp only [toJson]; exact .obj _ (stringify_wellformed_props ps)
    | .func => by simp [toJson]; exact .null
    | .symbol => by simp [toJson]; exact .null
  theorem stringify_wellformed_list : ∀ (l : List Js), WellFormedList (toJsonList l)
    | [] => by simp [toJsonList]; exact .nil
    | v :: t => by
      simp only [toJsonList]
      exact .cons _ _ (stringify_wellformed v) (stringify_wellformed_list t)
  theorem stringify_wellformed_props : ∀ (ps : List (Key × Js)), WellFormedKvs (toJsonProps ps)
    | [] => by simp [toJsonProps]; exact .nil
    | (k, v) :: t => by
      simp only [toJsonProps]
      split
      · exact .cons _ _ _ (stringify_wellformed v) (stringify_wellformed_props t)
      · exact stringify_wellformed_props t
end

/-- members without a JSON form are omitted from objects, whatever surrounds them. -/
theorem omitted_members (k : Key) (v : Js) (t : List (Key × Js)) (h : hasJsonForm v = false) :
    toJsonProps ((k, v) :: t) = toJsonProps t := by
  simp [toJsonProps, h]

/-! ## non-vacuity -/
example : propertyKey "0".toList = .index 0 ∧ propertyKey "17".toList = .index 17 ∧
    propertyKey "01".toList = .str "01".toList ∧ propertyKey "".toList = .str [] ∧
    propertyKey "4294967296".toList = .str "4294967296".toList := by decide
example : Clean (.obj [("0".toList, .num 4607182418800017408), ("a".toList, .arr [.null, .str "x".toList])]) := by
  refine .obj _ (.cons _ _ _ (.num _ ⟨by decide, by decide⟩) (.cons _ _ _ (.arr _ ?_) .nil))
  exact .cons _ _ .null (.cons _ _ (.str _) .nil)
example : toJson (.obj [(.str "f".toList, .func), (.str "u".toList, .undef), (.index 1, .num (2047 * 2 ^ 52))])
    = .obj [("1".toList, .null)] := by rfl

end TsrunVerif.Json
