import TsrunVerif.Model.Run

/-!
# C19 — all ways of running a program agree (driver layer)
-/
namespace TsrunVerif.Run

/-- **map_result_eq**: the two copies of the result mapping agree on every terminal result and
every ledger state. -/
theorem map_result_eq (r : VmResult) (l : Ledger) : mapEval r l = mapStep r l := by
  cases r <;> rfl

theorem advance_add {S R : Type} (step : S → Sum S R) (n m : Nat) :
    ∀ s, advance step (n + m) s = match advance step n s with
      | .inl s' => advance step m s'
      | .inr r => .inr r := by
  induction n with
  | zero => intro s; simp [advance]
  | succ k ih =>
    intro s
    have : k + 1 + m = (k + m) + 1 := by omega
    rw [this]
    simp only [advance]
    cases step s with
    | inl s' => exact ih s'
    | inr r => rfl

/-- **run_eq_steps**: running `chunks.sum` instructions in one go, or in any partition into
chunks with pauses in between (one instruction at a time included), ends in the same state /
the same terminal result. -/
theorem run_eq_steps {S R : Type} (step : S → Sum S R) (chunks : List Nat) :
    ∀ s, driveChunks step chunks s = advance step chunks.sum s := by
  induction chunks with
  | nil => intro s; rfl
  | cons n t ih =>
    intro s
    simp only [driveChunks, List.sum_cons]
    rw [advance_add]
    cases advance step n s with
    | inl s' => exact ih s'
    | inr r => rfl

/-- single-stepping is the special case of all chunks being 1. -/
theorem single_steps_eq_run {S R : Type} (step : S → Sum S R) (k : Nat) (s : S) :
    driveChunks step (List.replicate k 1) s = advance step k s := by
  rw [run_eq_steps]; simp

/-- once terminal, further chunks change nothing (extra `step()` calls after the end are harmless
at this layer). -/
theorem terminal_stable {S R : Type} (step : S → Sum S R) (n m : Nat) (s : S) (r : R)
    (h : advance step n s = .inr r) : advance step (n + m) s = .inr r := by
  rw [advance_add, h]

/-! ## non-vacuity: a counter VM that halts at 5 -/
def demoStep : Nat → Sum Nat String := fun n => if n ≥ 5 then .inr s!"done{n}" else .inl (n + 1)
example : driveChunks demoStep [2, 0, 1, 7] 0 = .inr "done5" ∧ advance demoStep 10 0 = .inr "done5" := by decide
example : mapEval .complete ⟨true, false, false⟩ = .suspendedReportingPending := rfl

end TsrunVerif.Run
