import TsrunVerif.Model.RegAlloc
import TsrunVerif.Gen.Narrowing
import TsrunVerif.Lemmas.NarrowingAllow

/-!
# C10 — meaning does not depend on size

Property theorems over M-RegAlloc: for every allocator state reachable by any operation
sequence (invariant `Inv`, preserved by every operation) a register handed out is never a live
one, windows are contiguous, fresh and inside the 8-bit register file *or refused* — for every
requested size `n : Nat` — and a statement bracketed by `save … restore` leaves the allocator's
cursor where it was, whatever it allocated (no cumulative limit).  The constant pool never
returns an index that wraps 16 bits and indices stay valid when the pool grows.
-/
namespace TsrunVerif.RegAlloc

/-- `live` = registers the compiler currently holds. -/
def Inv (ra : RA) (live : List Nat) : Prop :=
  ra.next ≤ 255 ∧ (∀ r ∈ live, r < ra.next) ∧ (∀ r ∈ ra.free, r < ra.next ∧ r ∉ live) ∧
  ra.free.Nodup ∧ live.Nodup ∧ (∀ p ∈ ra.saved, p ≤ 255)

theorem inv_init : Inv RA.init [] := by
  simp [Inv, RA.init]

/-- **alloc never hands out a live register**, stays inside the register file, keeps `Inv`. -/
theorem alloc_fresh (ra ra' : RA) (live : List Nat) (r : Nat) (hi : Inv ra live)
    (h : alloc ra = some (r, ra')) : r ∉ live ∧ r < 255 ∧ Inv ra' (r :: live) := by
  obtain ⟨h1, h2, h3, h4, h5, h6⟩ := hi
  unfold alloc at h
  cases hf : ra.free with
  | nil =>
    simp only [hf] at h
    split at h
    · simp at h
    · rename_i hne
      simp only [Option.some.injEq, Prod.mk.injEq] at h
      obtain ⟨hr, hra⟩ := h
      subst hr; subst hra
      refine ⟨fun hm => Nat.lt_irrefl _ (h2 _ hm), by omega, ?_⟩
      refine ⟨by simp; omega, ?_, by simp [hf], by simp [hf], ?_, h6⟩
      · intro x hx
        rcases List.mem_cons.mp hx with e | e
        · subst e; simp
        · have := h2 x e; simp; omega
      · exact List.nodup_cons.mpr ⟨fun hm => Nat.lt_irrefl _ (h2 _ hm), h5⟩
  | cons a rest =>
    simp only [hf, Option.some.injEq, Prod.mk.injEq] at h
    obtain ⟨hr, hra⟩ := h
    subst hr; subst hra
    have ha := h3 a (by simp [hf])
    rw [hf] at h4
    have hnd := List.nodup_cons.mp h4
    refine ⟨ha.2, by omega, ?_⟩
    refine ⟨h1, ?_, ?_, hnd.2, List.nodup_cons.mpr ⟨ha.2, h5⟩, h6⟩
    · intro x hx
      rcases List.mem_cons.mp hx with e | e
      · subst e; exact ha.1
      · exact h2 x e
    · intro x hx
      have hx' := h3 x (by simp [hf, hx])
      refine ⟨hx'.1, ?_⟩
      intro hm
      rcases List.mem_cons.mp hm with e | e
      · subst e; exact hnd.1 hx
      · exact hx'.2 e

/-- freeing a live register keeps the invariant (for the remaining live set). -/
theorem free_inv (ra : RA) (live : List Nat) (r : Nat) (hi : Inv ra live) (hr : r ∈ live) :
    Inv (free ra r) (live.erase r) := by
  obtain ⟨h1, h2, h3, h4, h5, h6⟩ := hi
  have hrn := h2 r hr
  have hmem : ∀ x, x ∈ live.erase r → x ∈ live ∧ x ≠ r := by
    intro x hx
    exact ⟨List.mem_of_mem_erase hx, fun e => by subst e; exact (List.Nodup.mem_erase_iff h5).mp hx |>.1 rfl⟩
  unfold free
  split
  · rename_i he
    refine ⟨by simp; omega, ?_, ?_, h4, List.Nodup.erase _ h5, h6⟩
    · intro x hx
      obtain ⟨hx1, hx2⟩ := hmem x hx
      have := h2 x hx1
      simp; omega
    · intro x hx
      have hx' := h3 x hx
      have hne : x ≠ r := fun e => hx'.2 (e ▸ hr)
      refine ⟨by simp; omega, fun hm => hx'.2 (hmem x hm).1⟩
  · refine ⟨h1, fun x hx => h2 x (hmem x hx).1, ?_, ?_, List.Nodup.erase _ h5, h6⟩
    · intro x hx
      rcases List.mem_cons.mp hx with e | e
      · subst e
        exact ⟨hrn, fun hm => (hmem x hm).2 rfl⟩
      · have hx' := h3 x e
        exact ⟨hx'.1, fun hm => hx'.2 (hmem x hm).1⟩
    · exact List.nodup_cons.mpr ⟨fun hm => (h3 r hm).2 hr, h4⟩

/-- **a reserved window is contiguous, fresh and inside the register file.** -/
theorem reserve_fresh (ra ra' : RA) (live : List Nat) (n s : Nat) (hi : Inv ra live)
    (h : reserveRange ra n = some (s, ra')) :
    (∀ i, i < n → s + i ∉ live ∧ s + i < 255) ∧ Inv ra' (List.range' s n ++ live) := by
  obtain ⟨h1, h2, h3, h4, h5, h6⟩ := hi
  unfold reserveRange at h
  split at h
  · simp at h
  · rename_i hle
    simp only [Option.some.injEq, Prod.mk.injEq] at h
    obtain ⟨hs, hra⟩ := h
    subst hs; subst hra
    constructor
    · intro i hi'
      exact ⟨fun hm => by have := h2 _ hm; omega, by omega⟩
    · refine ⟨by simp; omega, ?_, ?_, h4, ?_, h6⟩
      · intro x hx
        rcases List.mem_append.mp hx with e | e
        · have := List.mem_range'_1.mp e; simp; omega
        · have := h2 x e; simp; omega
      · intro x hx
        have hx' := h3 x hx
        refine ⟨by simp; omega, ?_⟩
        intro hm
        rcases List.mem_append.mp hm with e | e
        · have := List.mem_range'_1.mp e; omega
        · exact hx'.2 e
      · apply List.nodup_append.mpr
        refine ⟨List.nodup_range' (step := 1) (by omega), h5, ?_⟩
        intro a ha b hb hab
        subst hab
        have := List.mem_range'_1.mp ha
        have := h2 a hb
        omega

/-- **window_sound (full statement)**: for *every* requested size the result is either a
refusal or a window of exactly `n` distinct fresh registers below 255 — a size beyond the
8-bit file can no longer wrap. -/
theorem window_sound (ra : RA) (live : List Nat) (n : Nat) (hi : Inv ra live) :
    reserveFor ra n = none ∨
    ∃ s ra', reserveFor ra n = some (s, ra') ∧ n ≤ 255 ∧
      (∀ i, i < n → s + i ∉ live ∧ s + i < 255) ∧ Inv ra' (List.range' s n ++ live) := by
  unfold reserveFor
  split
  · left; rfl
  · rename_i hn
    cases hr : reserveRange ra n with
    | none => left; rfl
    | some p =>
      obtain ⟨s, ra'⟩ := p
      right
      have := reserve_fresh ra ra' live n s hi hr
      exact ⟨s, ra', rfl, by omega, this.1, this.2⟩

/-- sizes beyond the register file are always refused. -/
theorem oversize_refused (ra : RA) (n : Nat) (h : 255 < n) : reserveFor ra n = none := by
  simp [reserveFor, h]

/-! ## statements are register-neutral: no cumulative limit -/

theorem alloc_saved (ra ra' : RA) (r : Nat) (h : alloc ra = some (r, ra')) : ra'.saved = ra.saved := by
  unfold alloc at h
  cases hf : ra.free with
  | nil =>
    simp only [hf] at h
    split at h
    · simp at h
    · simp only [Option.some.injEq, Prod.mk.injEq] at h
      rw [← h.2]
  | cons a t =>
    simp only [hf, Option.some.injEq, Prod.mk.injEq] at h
    rw [← h.2]

theorem reserveFor_saved (ra ra' : RA) (n s : Nat) (h : reserveFor ra n = some (s, ra')) :
    ra'.saved = ra.saved := by
  unfold reserveFor reserveRange at h
  split at h
  · simp at h
  · split at h
    · simp at h
    · simp only [Option.some.injEq, Prod.mk.injEq] at h
      rw [← h.2]

theorem step_saved (ra : RA) (op : Op) (h1 : op ≠ .save) (h2 : op ≠ .restore) :
    (step ra op).saved = ra.saved := by
  cases op with
  | alloc =>
    simp only [step]
    cases h : alloc ra with
    | none => rfl
    | some p => obtain ⟨r, ra'⟩ := p; exact alloc_saved ra ra' r h
  | free r => simp only [step, free]; split <;> rfl
  | reserve n =>
    simp only [step]
    cases h : reserveFor ra n with
    | none => rfl
    | some p => obtain ⟨s, ra'⟩ := p; exact reserveFor_saved ra ra' n s h
  | save => exact absurd rfl h1
  | restore => exact absurd rfl h2

/-- nesting depth bookkeeping: `none` if a `restore` has no matching `save`. -/
def depthAfter : Nat → List Op → Option Nat
  | d, [] => some d
  | d, .save :: t => depthAfter (d + 1) t
  | 0, .restore :: _ => none
  | d + 1, .restore :: t => depthAfter d t
  | d, .alloc :: t => depthAfter d t
  | d, .free _ :: t => depthAfter d t
  | d, .reserve _ :: t => depthAfter d t

theorem saved_stack (ops : List Op) :
    ∀ (ra : RA) (ex base : List Nat) (d d' : Nat), ra.saved = ex ++ base → ex.length = d →
      depthAfter d ops = some d' → ∃ ex', (run ra ops).saved = ex' ++ base ∧ ex'.length = d' := by
  induction ops with
  | nil =>
    intro ra ex base d d' hs hl hd
    simp [depthAfter] at hd
    exact ⟨ex, by simpa [run] using hs, by omega⟩
  | cons op t ih =>
    intro ra ex base d d' hs hl hd
    simp only [run, List.foldl_cons]
    cases op with
    | save =>
      simp only [depthAfter] at hd
      exact ih (step ra .save) (ra.next :: ex) base (d + 1) d' (by simp [step, save, hs]) (by simp [hl]) hd
    | restore =>
      cases d with
      | zero => simp [depthAfter] at hd
      | succ d0 =>
        simp only [depthAfter] at hd
        cases ex with
        | nil => simp at hl
        | cons p ex0 =>
          refine ih (step ra .restore) ex0 base d0 d' ?_ (by simpa using hl) hd
          simp [step, restore, hs]
    | alloc =>
      simp only [depthAfter] at hd
      exact ih _ ex base d d' (by rw [step_saved _ _ (by simp) (by simp)]; exact hs) hl hd
    | free r =>
      simp only [depthAfter] at hd
      exact ih _ ex base d d' (by rw [step_saved _ _ (by simp) (by simp)]; exact hs) hl hd
    | reserve n =>
      simp only [depthAfter] at hd
      exact ih _ ex base d d' (by rw [step_saved _ _ (by simp) (by simp)]; exact hs) hl hd

/-- **no_cumulative_limit (full statement)**: whatever a statement does between the `save`
and the `restore` that bracket it (any allocations, frees, windows, properly nested inner
statements), afterwards the allocation cursor and the save stack are exactly what they were
before — so a sequence of statements uses no more registers than its hungriest member. -/
theorem stmt_neutral (ra : RA) (ops : List Op) (hb : depthAfter 0 ops = some 0) :
    (restore (run (save ra) ops)).next = ra.next ∧ (restore (run (save ra) ops)).saved = ra.saved := by
  obtain ⟨ex', hs, hl⟩ := saved_stack ops (save ra) [] (ra.next :: ra.saved) 0 0 (by simp [save]) rfl hb
  have hnil : ex' = [] := List.eq_nil_of_length_eq_zero hl
  subst hnil
  simp only [List.nil_append] at hs
  simp [restore, hs]

/-- and `restore` keeps the invariant for the registers that are still meaningful. -/
theorem restore_inv (ra : RA) (live : List Nat) (pos : Nat) (rest : List Nat) (hi : Inv ra live)
    (hs : ra.saved = pos :: rest) : Inv (restore ra) (live.filter (· < pos)) := by
  obtain ⟨h1, h2, h3, h4, h5, h6⟩ := hi
  simp only [restore, hs]
  refine ⟨h6 pos (by simp [hs]), ?_, ?_, List.Nodup.sublist List.filter_sublist h4,
    List.Nodup.sublist List.filter_sublist h5, fun p hp => h6 p (by simp [hs, hp])⟩
  · intro x hx
    simpa using (List.mem_filter.mp hx).2
  · intro x hx
    have hx' := List.mem_filter.mp hx
    refine ⟨by simpa using hx'.2, fun hm => (h3 x hx'.1).2 (List.mem_filter.mp hm).1⟩

/-! ## constant pool: 16-bit indices never wrap, earlier indices stay valid -/

theorem addConstant_sound (p p' : Pool) (c i : Nat) (h : addConstant p c = some (i, p')) :
    i < 65535 ∧ p'.consts[i]? = some c ∧ p'.consts = p.consts ++ [c] := by
  unfold addConstant at h
  split at h
  · simp at h
  · simp only [Option.some.injEq, Prod.mk.injEq] at h
    obtain ⟨hi, hp⟩ := h
    subst hi; subst hp
    refine ⟨by omega, by simp, rfl⟩

/-- **const_index_sound**: the index returned for a constant — new or re-used — is below
2^16 - 1 and addresses that constant; everything stored before is untouched. -/
theorem addDedup_sound (p p' : Pool) (c i : Nat) (hlen : p.consts.length ≤ 65535)
    (h : addDedup p c = some (i, p')) :
    i < 65535 ∧ p'.consts[i]? = some c ∧ (∃ extra, p'.consts = p.consts ++ extra) ∧
      p'.consts.length ≤ 65535 := by
  unfold addDedup at h
  simp only at h
  split at h
  · rename_i hlt
    simp only [Option.some.injEq, Prod.mk.injEq] at h
    obtain ⟨hi, hp⟩ := h
    subst hi; subst hp
    refine ⟨by omega, ?_, ⟨[], by simp⟩, hlen⟩
    have hmem : c ∈ p.consts := List.idxOf_lt_length_iff.mp hlt
    rw [List.getElem?_eq_getElem hlt]
    simp [List.getElem_idxOf hlt]
  · obtain ⟨h1, h2, h3⟩ := addConstant_sound p p' c i h
    refine ⟨h1, h2, ⟨[c], h3⟩, ?_⟩
    rw [h3]; simp
    unfold addConstant at h
    split at h
    · simp at h
    · omega

/-- an index obtained earlier still addresses the same constant after the pool grew. -/
theorem index_stable (p : Pool) (extra : List Nat) (i c : Nat) (h : p.consts[i]? = some c) :
    (p.consts ++ extra)[i]? = some c := by
  rw [List.getElem?_append_left (List.getElem?_eq_some_iff.mp h).1]; exact h

/-! ## non-vacuity -/
example : Inv (run RA.init [.alloc, .alloc, .reserve 3, .free 0]) [1, 2, 3, 4] := by
  simp [Inv, run, step, alloc, reserveFor, reserveRange, free, RA.init]
example : depthAfter 0 [.alloc, .save, .reserve 200, .restore, .reserve 7, .free 3] = some 0 := by decide
example : (restore (run (save RA.init) [.reserve 200, .alloc, .save, .reserve 50, .restore])).next = 0 := by decide
example : reserveFor RA.init 300 = none ∧ (reserveFor RA.init 255).isSome ∧ reserveFor { RA.init with next := 1 } 255 = none := by
  decide

end TsrunVerif.RegAlloc

namespace TsrunVerif.Gen
/-- OBLIGATION over the inventory regenerated from /repo/src/compiler on every run: every narrowing cast
(`as u8`, `as u16`, `as JumpTarget`, …) of the compiler is one of the reviewed sites, each dominated by a size
check or a clamp - the theorems above are about the checked paths; a cast outside the list is a place where a
size can wrap silently. -/
theorem narrowing_reviewed :
    (narrowingSites.all (fun s => narrowingSites.count s == reviewedNarrowing.count s) &&
     reviewedNarrowing.all (fun s => narrowingSites.count s == reviewedNarrowing.count s)) = true := by decide
end TsrunVerif.Gen
