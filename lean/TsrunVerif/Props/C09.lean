import TsrunVerif.Model.Mod

/-!
# C09 — module graphs load once, dependencies first, whatever the host's order

Theorems over M-Mod for every dependency function `deps`, every loader state and *every*
visiting order `perm` of the hash map (any function returning a permutation of its argument).
-/
namespace TsrunVerif.Mod

def IsPerm (perm : List Nat → List Nat) : Prop := ∀ l, (perm l).Perm l

/-! ## exactly once -/

theorem readyList_sub (deps : Nat → List Nat) (st : St) :
    ∀ m ∈ readyList deps st, m ∈ st.pending ∧ m ∉ st.loaded ∧ ∀ d ∈ deps m, d ∈ st.loaded := by
  intro m hm
  have h := List.mem_filter.mp hm
  refine ⟨h.1, ?_, ?_⟩
  · have := h.2; simp [isReady] at this; exact this.1
  · have := h.2; simp [isReady] at this; exact this.2

/-- **exec_once** (one round): the execution log never repeats a module. -/
theorem round_loaded_nodup (deps : Nat → List Nat) (perm : List Nat → List Nat) (hp : IsPerm perm) (st : St)
    (hl : st.loaded.Nodup) (hq : st.pending.Nodup) : (round deps perm st).loaded.Nodup := by
  simp only [round]
  apply List.nodup_append.mpr
  refine ⟨hl, ?_, ?_⟩
  · exact (hp _).nodup_iff.mpr (List.Nodup.sublist List.filter_sublist hq)
  · intro a ha b hb hab
    subst hab
    have hb' := (hp _).mem_iff.mp hb
    exact (readyList_sub deps st a hb').2.1 ha

theorem round_pending_nodup (deps : Nat → List Nat) (perm : List Nat → List Nat) (st : St)
    (hq : st.pending.Nodup) : (round deps perm st).pending.Nodup :=
  List.Nodup.sublist List.filter_sublist hq

/-- **exec_once**: after any number of rounds every module body has run at most once. -/
theorem process_loaded_nodup (deps : Nat → List Nat) (perm : List Nat → List Nat) (hp : IsPerm perm) :
    ∀ (fuel : Nat) (st : St), st.loaded.Nodup → st.pending.Nodup →
      (process deps perm fuel st).loaded.Nodup ∧ (process deps perm fuel st).pending.Nodup := by
  intro fuel
  induction fuel with
  | zero => intro st hl hq; exact ⟨hl, hq⟩
  | succ f ih =>
    intro st hl hq
    simp only [process]
    split
    · exact ⟨hl, hq⟩
    · exact ih _ (round_loaded_nodup deps perm hp st hl hq) (round_pending_nodup deps perm st hq)

/-! ## dependencies first -/

/-- every module in the log `l` has all its imports in `seen` or earlier in `l`. -/
def DepsFirstFrom (deps : Nat → List Nat) : List Nat → List Nat → Prop
  | _, [] => True
  | seen, m :: t => (∀ d ∈ deps m, d ∈ seen) ∧ DepsFirstFrom deps (seen ++ [m]) t

def DepsFirst (deps : Nat → List Nat) (log : List Nat) : Prop := DepsFirstFrom deps [] log

theorem depsFirstFrom_mono (deps : Nat → List Nat) (l : List Nat) :
    ∀ (s1 s2 : List Nat), (∀ x ∈ s1, x ∈ s2) → DepsFirstFrom deps s1 l → DepsFirstFrom deps s2 l := by
  induction l with
  | nil => intros; trivial
  | cons m t ih =>
    intro s1 s2 hs h
    refine ⟨fun d hd => hs d (h.1 d hd), ih _ _ ?_ h.2⟩
    intro x hx
    rcases List.mem_append.mp hx with h1 | h1
    · exact List.mem_append.mpr (Or.inl (hs x h1))
    · exact List.mem_append.mpr (Or.inr h1)

theorem depsFirstFrom_append (deps : Nat → List Nat) (a b : List Nat) :
    ∀ seen, DepsFirstFrom deps seen a → DepsFirstFrom deps (seen ++ a) b → DepsFirstFrom deps seen (a ++ b) := by
  induction a with
  | nil => intro seen _ hb; simpa using hb
  | cons m t ih =>
    intro seen ha hb
    refine ⟨ha.1, ih _ ha.2 ?_⟩
    simpa [List.append_assoc] using hb

theorem depsFirstFrom_of_all (deps : Nat → List Nat) (l : List Nat) :
    ∀ seen, (∀ m ∈ l, ∀ d ∈ deps m, d ∈ seen) → DepsFirstFrom deps seen l := by
  induction l with
  | nil => intros; trivial
  | cons m t ih =>
    intro seen h
    refine ⟨h m (by simp), ih _ ?_⟩
    intro x hx d hd
    exact List.mem_append.mpr (Or.inl (h x (by simp [hx]) d hd))

/-- **deps_first** (one round): a module body runs only after all modules it imports. -/
theorem round_depsFirst (deps : Nat → List Nat) (perm : List Nat → List Nat) (hp : IsPerm perm) (st : St)
    (h : DepsFirst deps st.loaded) : DepsFirst deps (round deps perm st).loaded := by
  simp only [round, DepsFirst]
  apply depsFirstFrom_append deps _ _ [] h
  apply depsFirstFrom_of_all
  intro m hm d hd
  have hm' := (hp _).mem_iff.mp hm
  simpa using (readyList_sub deps st m hm').2.2 d hd

/-- **deps_first**: for every number of rounds. -/
theorem process_depsFirst (deps : Nat → List Nat) (perm : List Nat → List Nat) (hp : IsPerm perm) :
    ∀ (fuel : Nat) (st : St), DepsFirst deps st.loaded → DepsFirst deps (process deps perm fuel st).loaded := by
  intro fuel
  induction fuel with
  | zero => intro st h; exact h
  | succ f ih =>
    intro st h
    simp only [process]
    split
    · exact h
    · exact ih _ (round_depsFirst deps perm hp st h)

/-! ## termination -/

/-- **load_terminates**: `pending.length + 1` rounds always suffice — afterwards nothing is
ready any more (every round that finds a ready module removes it from `pending`). -/
theorem process_terminates (deps : Nat → List Nat) (perm : List Nat → List Nat) :
    ∀ (fuel : Nat) (st : St), st.pending.length < fuel →
      readyList deps (process deps perm fuel st) = [] := by
  intro fuel
  induction fuel with
  | zero => intro st h; omega
  | succ f ih =>
    intro st h
    simp only [process]
    split
    · assumption
    · rename_i hne
      apply ih
      have hlt : (round deps perm st).pending.length < st.pending.length := by
        simp only [round]
        apply List.length_filter_lt_length_iff_exists.mpr
        cases hr : readyList deps st with
        | nil => exact absurd hr hne
        | cons x t =>
          have hx : x ∈ readyList deps st := by rw [hr]; simp
          exact ⟨x, (readyList_sub deps st x hx).1, by simp⟩
      omega

/-! ## order independence -/

/-- two loader states that differ only in the order of the execution log. -/
def Equiv (a b : St) : Prop := a.pending = b.pending ∧ ∀ x, x ∈ a.loaded ↔ x ∈ b.loaded

theorem isReady_equiv (deps : Nat → List Nat) (a b : St) (h : Equiv a b) (m : Nat) :
    isReady deps a m = isReady deps b m := by
  have hc : ∀ x, a.loaded.contains x = b.loaded.contains x := by
    intro x
    have := h.2 x
    by_cases hx : x ∈ a.loaded
    · simp [hx, this.mp hx]
    · have hx' : x ∉ b.loaded := fun e => hx (this.mpr e)
      simp [hx, hx']
  simp only [isReady, hc]

theorem readyList_equiv (deps : Nat → List Nat) (a b : St) (h : Equiv a b) :
    readyList deps a = readyList deps b := by
  simp only [readyList, h.1]
  apply List.filter_congr
  intro m _
  exact isReady_equiv deps a b h m

theorem round_equiv (deps : Nat → List Nat) (p1 p2 : List Nat → List Nat) (h1 : IsPerm p1) (h2 : IsPerm p2)
    (a b : St) (h : Equiv a b) : Equiv (round deps p1 a) (round deps p2 b) := by
  have hr := readyList_equiv deps a b h
  constructor
  · simp only [round, hr, h.1]
  · intro x
    simp only [round, List.mem_append, hr]
    rw [(h1 _).mem_iff, (h2 _).mem_iff, h.2 x]

/-- **order_independent**: whatever order the hash map yields ready modules in, loading ends
with the same set of loaded modules and the same modules still pending — so the same exports
are wired and the same requests are made. -/
theorem process_order_independent (deps : Nat → List Nat) (p1 p2 : List Nat → List Nat)
    (h1 : IsPerm p1) (h2 : IsPerm p2) :
    ∀ (fuel : Nat) (a b : St), Equiv a b → Equiv (process deps p1 fuel a) (process deps p2 fuel b) := by
  intro fuel
  induction fuel with
  | zero => intro a b h; exact h
  | succ f ih =>
    intro a b h
    simp only [process, readyList_equiv deps a b h]
    split
    · exact h
    · exact ih _ _ (round_equiv deps p1 p2 h1 h2 a b h)

theorem unprovided_equiv (deps : Nat → List Nat) (a b : St) (h : Equiv a b) :
    ∀ x, x ∈ (a.pending.filter (fun m => !a.loaded.contains m && !isReady deps a m)) ↔
         x ∈ (b.pending.filter (fun m => !b.loaded.contains m && !isReady deps b m)) := by
  intro x
  simp only [List.mem_filter, h.1, isReady_equiv deps a b h]
  have := h.2 x
  constructor
  · rintro ⟨hp, hc⟩
    refine ⟨hp, ?_⟩
    simp only [Bool.and_eq_true, Bool.not_eq_true', List.contains_eq_mem, decide_eq_false_iff_not] at hc ⊢
    exact ⟨fun e => hc.1 (this.mpr e), hc.2⟩
  · rintro ⟨hp, hc⟩
    refine ⟨hp, ?_⟩
    simp only [Bool.and_eq_true, Bool.not_eq_true', List.contains_eq_mem, decide_eq_false_iff_not] at hc ⊢
    exact ⟨fun e => hc.1 (this.mp e), hc.2⟩

/-! ## requests are canonical -/

theorem mem_dedupe (l : List Nat) (x : Nat) : x ∈ dedupe l ↔ x ∈ l := by
  induction l with
  | nil => simp [dedupe]
  | cons a t ih =>
    simp only [dedupe, List.mem_cons, List.mem_filter]
    constructor
    · rintro (h | ⟨h, _⟩)
      · exact Or.inl h
      · exact Or.inr (ih.mp h)
    · rintro (h | h)
      · exact Or.inl h
      · by_cases hx : x = a
        · exact Or.inl hx
        · exact Or.inr ⟨ih.mpr h, by simpa using hx⟩

theorem dedupe_nodup (l : List Nat) : (dedupe l).Nodup := by
  induction l with
  | nil => simp [dedupe]
  | cons a t ih =>
    simp only [dedupe]
    apply List.nodup_cons.mpr
    constructor
    · intro h; have := (List.mem_filter.mp h).2; simp at this
    · exact List.Nodup.sublist List.filter_sublist ih

/-- **requests_canonical**: a request list names each missing module once … -/
theorem unprovided_nodup (deps : Nat → List Nat) (st : St) : (unprovided deps st).Nodup :=
  dedupe_nodup _

/-- … and names exactly the imports of supplied-but-blocked modules that are neither loaded
nor supplied (so nothing already available is requested again, and every request has an
importer among the pending modules). -/
theorem unprovided_spec (deps : Nat → List Nat) (st : St) (x : Nat) :
    x ∈ unprovided deps st ↔
      ∃ m ∈ st.pending, m ∉ st.loaded ∧ isReady deps st m = false ∧ x ∈ deps m ∧ x ∉ st.loaded ∧ x ∉ st.pending := by
  unfold unprovided
  rw [mem_dedupe, List.mem_flatMap]
  constructor
  · rintro ⟨m, hm, hx⟩
    have h1 := List.mem_filter.mp hm
    have h2 := List.mem_filter.mp hx
    refine ⟨m, h1.1, ?_, ?_, h2.1, ?_, ?_⟩ <;> simp_all
  · rintro ⟨m, hm, h1, h2, h3, h4, h5⟩
    refine ⟨m, List.mem_filter.mpr ⟨hm, by simp_all⟩, List.mem_filter.mpr ⟨h3, by simp_all⟩⟩

/-- only supplied modules are ever executed. -/
theorem executed_were_supplied (deps : Nat → List Nat) (perm : List Nat → List Nat) (hp : IsPerm perm) :
    ∀ (fuel : Nat) (st : St) (x : Nat), x ∈ (process deps perm fuel st).loaded → x ∈ st.loaded ∨ x ∈ st.pending := by
  intro fuel
  induction fuel with
  | zero => intro st x h; exact Or.inl h
  | succ f ih =>
    intro st x h
    simp only [process] at h
    split at h
    · exact Or.inl h
    · rcases ih _ x h with h1 | h1
      · simp only [round] at h1
        rcases List.mem_append.mp h1 with h2 | h2
        · exact Or.inl h2
        · exact Or.inr (readyList_sub deps st x ((hp _).mem_iff.mp h2)).1
      · simp only [round] at h1
        exact Or.inr (List.mem_filter.mp h1).1

/-! ## non-vacuity: a diamond 0 → {1,2} → 3 supplied in an awkward order -/
def diamond : Nat → List Nat := fun m => if m = 0 then [1, 2] else if m = 1 then [3] else if m = 2 then [3] else []

example : IsPerm id ∧ IsPerm List.reverse := ⟨fun _ => List.Perm.refl _, fun l => List.reverse_perm l⟩
example : (process diamond id 5 { loaded := [], pending := [0, 2, 1, 3] }).loaded = [3, 2, 1, 0] := by decide
example : (process diamond List.reverse 5 { loaded := [], pending := [0, 2, 1, 3] }).loaded = [3, 1, 2, 0] := by decide
example : unprovided diamond { loaded := [], pending := [0, 1] } = [2, 3] := by decide
example : DepsFirst diamond [3, 1, 2, 0] := by simp [DepsFirst, DepsFirstFrom, diamond]

end TsrunVerif.Mod
