import TsrunVerif.Model.Obj

/-!
# C01 (objects) — property theorems over M-Obj

Prototype chains of ANY length, for every key: `[[Get]]` finds the nearest holder; for-in reports
exactly the keys whose nearest holder has them enumerable, each once; bound functions compose by
concatenating their arguments, whatever the number of layers.
-/
namespace TsrunVerif.Obj

theorem own_some {o : O} {k : String} {p : PropE} (h : own o k = some p) : p ∈ o ∧ p.key = k := by
  unfold own at h
  have h1 := List.mem_of_find?_eq_some h
  have h2 := List.find?_some h
  exact ⟨h1, by simpa using h2⟩

theorem own_none {o : O} {k : String} (h : own o k = none) : ∀ p ∈ o, p.key ≠ k := by
  unfold own at h
  intro p hp hk
  have := List.find?_eq_none.mp h p hp
  simp [hk] at this

/-- objects above a key's nearest holder do not matter -/
theorem lookup_append_miss (pre rest : List O) (k : String) (h : ∀ o ∈ pre, own o k = none) :
    lookup (pre ++ rest) k = lookup rest k := by
  induction pre with
  | nil => rfl
  | cons o pre ih =>
    simp only [List.cons_append, lookup]
    rw [h o (List.mem_cons_self)]
    exact ih (fun o' ho' => h o' (List.mem_cons_of_mem _ ho'))

/-- **[[Get]] finds the nearest holder**, however long the chain below and above it -/
theorem lookup_nearest (pre rest : List O) (o : O) (k : String) (p : PropE)
    (hpre : ∀ o' ∈ pre, own o' k = none) (ho : own o k = some p) :
    lookup (pre ++ o :: rest) k = some p.val := by
  rw [lookup_append_miss pre (o :: rest) k hpre]
  simp [lookup, ho]

theorem lookup_none_iff (chain : List O) (k : String) : lookup chain k = none ↔ has chain k = false := by
  induction chain with
  | nil => simp [lookup, has]
  | cons o rest ih =>
    simp only [lookup, has, List.any_cons] at *
    cases h : own o k with
    | none => simpa [h] using ih
    | some p => simp [h]

/-- does the nearest holder of `k` have it enumerable? -/
def nearestEnum : List O → String → Bool
  | [], _ => false
  | o :: rest, k =>
    match own o k with
    | some p => p.enumerable
    | none => nearestEnum rest k

/-- own keys are distinct (true of every object) -/
def WF (o : O) : Prop := (o.map (·.key)).Nodup

theorem unique_key : ∀ (o : O), WF o → ∀ p p', p ∈ o → p' ∈ o → p.key = p'.key → p = p'
  | [], _, _, _, h, _, _ => by simp at h
  | x :: xs, hwf, p, p', hp, hp', hk => by
    unfold WF at hwf
    simp only [List.map_cons, List.nodup_cons] at hwf
    rcases List.mem_cons.mp hp with h1 | h1
    · rcases List.mem_cons.mp hp' with h2 | h2
      · rw [h1, h2]
      · subst h1
        exact absurd (List.mem_map.mpr ⟨p', h2, hk.symm⟩ : p.key ∈ xs.map (·.key)) hwf.1
    · rcases List.mem_cons.mp hp' with h2 | h2
      · subst h2
        exact absurd (List.mem_map.mpr ⟨p, h1, hk⟩ : p'.key ∈ xs.map (·.key)) hwf.1
      · exact unique_key xs hwf.2 p p' h1 h2 hk

/-- **for-in reports exactly the visible enumerable keys**: `k` is enumerated iff it was not seen
    before and the nearest object that has `k` has it enumerable (a nearer non-enumerable property
    hides an inherited enumerable one) -/
theorem forIn_mem_iff : ∀ (chain : List O) (seen : List String) (k : String), (∀ o ∈ chain, WF o) →
    (k ∈ forIn chain seen ↔ k ∉ seen ∧ nearestEnum chain k = true)
  | [], seen, k, _ => by simp [forIn, nearestEnum]
  | o :: rest, seen, k, hwf => by
    have ih := forIn_mem_iff rest (seen ++ (o.filter (fun p => !seen.contains p.key)).map (·.key)) k
      (fun o' ho' => hwf o' (List.mem_cons_of_mem _ ho'))
    simp only [forIn, List.mem_append, List.mem_map, List.mem_filter, nearestEnum]
    cases ho : own o k with
    | some p =>
      obtain ⟨hp, hpk⟩ := own_some ho
      constructor
      · rintro (⟨q, ⟨⟨hq, hqs⟩, hqe⟩, hqk⟩ | hr)
        · have : q = p := unique_key o (hwf o List.mem_cons_self) q p hq hp (hqk.trans hpk.symm)
          subst this
          refine ⟨?_, hqe⟩
          simpa [hqk] using hqs
        · have := (ih.mp hr).1
          exfalso
          apply this
          by_cases hs : k ∈ seen
          · exact List.mem_append_left _ hs
          · refine List.mem_append_right _ (List.mem_map.mpr ⟨p, List.mem_filter.mpr ⟨hp, ?_⟩, hpk⟩)
            simpa [hpk] using hs
      · rintro ⟨hs, he⟩
        refine Or.inl ⟨p, ⟨⟨hp, ?_⟩, he⟩, hpk⟩
        simpa [hpk] using hs
    | none =>
      have hno := own_none ho
      constructor
      · rintro (⟨q, ⟨⟨hq, _⟩, _⟩, hqk⟩ | hr)
        · exact absurd hqk (hno q hq)
        · obtain ⟨h1, h2⟩ := ih.mp hr
          refine ⟨fun hs => h1 (List.mem_append_left _ hs), h2⟩
      · rintro ⟨hs, he⟩
        refine Or.inr (ih.mpr ⟨?_, he⟩)
        intro hmem
        rcases List.mem_append.mp hmem with h | h
        · exact hs h
        · obtain ⟨q, hq, hqk⟩ := List.mem_map.mp h
          exact hno q (List.mem_filter.mp hq).1 hqk

theorem forInKeys_mem_iff (chain : List O) (k : String) (hwf : ∀ o ∈ chain, WF o) :
    k ∈ forInKeys chain ↔ nearestEnum chain k = true := by
  simpa [forInKeys] using forIn_mem_iff chain [] k hwf

/-- every enumerated key is a property of the receiver -/
theorem forInKeys_has (chain : List O) (k : String) (hwf : ∀ o ∈ chain, WF o) (h : k ∈ forInKeys chain) :
    has chain k = true := by
  have h1 := (forInKeys_mem_iff chain k hwf).mp h
  induction chain with
  | nil => simp [nearestEnum] at h1
  | cons o rest ih =>
    simp only [has, List.any_cons]
    simp only [nearestEnum] at h1
    cases ho : own o k with
    | some p => simp
    | none =>
      simp only [ho] at h1
      have hr : k ∈ forInKeys rest :=
        (forInKeys_mem_iff rest k (fun o' ho' => hwf o' (List.mem_cons_of_mem _ ho'))).mpr h1
      have := ih (fun o' ho' => hwf o' (List.mem_cons_of_mem _ ho')) hr h1
      simpa [has, ho] using this

/-- **no key is enumerated twice** -/
theorem forIn_nodup : ∀ (chain : List O) (seen : List String), (∀ o ∈ chain, WF o) → (forIn chain seen).Nodup
  | [], _, _ => by simp [forIn]
  | o :: rest, seen, hwf => by
    have hrest := forIn_nodup rest (seen ++ (o.filter (fun p => !seen.contains p.key)).map (·.key))
      (fun o' ho' => hwf o' (List.mem_cons_of_mem _ ho'))
    simp only [forIn]
    refine List.nodup_append.mpr ⟨?_, hrest, ?_⟩
    · -- the own part: a sublist of the (distinct) own keys
      have hw : (o.map (·.key)).Nodup := hwf o List.mem_cons_self
      have hsub : List.Sublist (((o.filter (fun p => !seen.contains p.key)).filter (·.enumerable)).map (·.key)) (o.map (·.key)) :=
        List.Sublist.map _ ((List.filter_sublist).trans (List.filter_sublist))
      exact hsub.nodup hw
    · intro a ha b hb hab
      subst hab
      have := (forIn_mem_iff rest _ a (fun o' ho' => hwf o' (List.mem_cons_of_mem _ ho'))).mp hb
      apply this.1
      obtain ⟨q, hq, hqk⟩ := List.mem_map.mp ha
      exact List.mem_append_right _ (List.mem_map.mpr ⟨q, (List.mem_filter.mp hq).1, hqk⟩)

/-- own enumerable keys come first, in own-key order -/
theorem forInKeys_own_first (o : O) (rest : List O) :
    ∃ tail, forInKeys (o :: rest) = (o.filter (·.enumerable)).map (·.key) ++ tail := by
  refine ⟨forIn rest ([] ++ (o.filter (fun p => !([] : List String).contains p.key)).map (·.key)), ?_⟩
  simp [forInKeys, forIn]

/-! ### bound functions -/

/-- **a call through any number of `bind` layers passes all bound arguments, innermost layer first,
    then the call's own arguments, to the innermost target** -/
theorem resolveCall_spec : ∀ (f : Fn) (this : Option Int) (args : List Int),
    (resolveCall f this args).1 = instanceTarget f ∧ (resolveCall f this args).2.2 = boundArgs f ++ args
  | .target id, this, args => by simp [resolveCall, instanceTarget, boundArgs]
  | .bound f t bargs, this, args => by
    have ih := resolveCall_spec f t (bargs ++ args)
    simp only [resolveCall, instanceTarget, boundArgs, List.append_assoc]
    exact ih

theorem resolveNew_spec : ∀ (f : Fn) (args : List Int),
    (resolveNew f args).1 = instanceTarget f ∧ (resolveNew f args).2 = boundArgs f ++ args
  | .target id, args => by simp [resolveNew, instanceTarget, boundArgs]
  | .bound f t bargs, args => by
    have ih := resolveNew_spec f (bargs ++ args)
    simp only [resolveNew, instanceTarget, boundArgs, List.append_assoc]
    exact ih

/-- `new` and a call agree on target and arguments (they differ in `this` only) -/
theorem new_call_agree (f : Fn) (this : Option Int) (args : List Int) :
    (resolveNew f args).1 = (resolveCall f this args).1 ∧ (resolveNew f args).2 = (resolveCall f this args).2.2 := by
  obtain ⟨a1, a2⟩ := resolveCall_spec f this args
  obtain ⟨b1, b2⟩ := resolveNew_spec f args
  exact ⟨b1.trans a1.symm, b2.trans a2.symm⟩

/-- binding twice is binding once with the concatenated arguments; the second `this` is ignored -/
theorem bind_compose (f : Fn) (t1 t2 : Option Int) (a1 a2 : List Int) (this : Option Int) (args : List Int) :
    resolveCall (.bound (.bound f t1 a1) t2 a2) this args = resolveCall (.bound f t1 (a1 ++ a2)) this args := by
  simp [resolveCall, List.append_assoc]

/-- the `this` of a bound function is fixed by the innermost `bind`, whatever the caller passes -/
theorem bound_this_fixed (f : Fn) (t : Option Int) (a : List Int) (this this' : Option Int) (args : List Int) :
    resolveCall (.bound f t a) this args = resolveCall (.bound f t a) this' args := by
  simp [resolveCall]

-- non-vacuity
example : forInKeys [[⟨"b", 2, true⟩, ⟨"z", 9, true⟩, ⟨"hid", 1, false⟩], [⟨"a", 1, true⟩, ⟨"z", 0, true⟩, ⟨"hid", 5, true⟩]] = ["b", "z", "a"] := by decide
example : lookup [[⟨"b", 2, true⟩], [], [⟨"a", 1, true⟩, ⟨"b", 7, true⟩]] "b" = some 2 ∧ lookup [[⟨"b", 2, true⟩], [], [⟨"a", 1, true⟩]] "a" = some 1 := by decide
example : resolveCall (.bound (.bound (.target 7) (some 1) [10]) (some 2) [20, 30]) none [40] = (7, some 1, [10, 20, 30, 40]) := by decide
example : WF [⟨"b", 2, true⟩, ⟨"z", 9, true⟩] := by unfold WF; decide

end TsrunVerif.Obj
