import TsrunVerif.Model.Parse
import TsrunVerif.Gen.ParserLimits
/-!
C05 — every source text is accepted or rejected cleanly, in bounded time.
Property theorems over M-Parse (`Model/Parse.lean`): work of the speculative parse with and
without the failure memo, recursion depth under the guard, depth of loop-built chains.
-/
/-- OBLIGATION over the constants regenerated from the current source (`Gen/ParserLimits.lean`): releasing a
chain of `MAX_CHAIN` links (about 200 bytes of stack per link in an unoptimised build) fits the stack budget of
the recursive descent, all five loops that build chains count their links and the three entry points
(statement, assignment expression, type) open an accounting scope. -/
theorem TsrunVerif.Gen.limits_sane :
    TsrunVerif.Gen.maxChain * 192 ≤ TsrunVerif.Gen.parserStackBudget ∧ 0 < TsrunVerif.Gen.maxChain ∧
    TsrunVerif.Gen.parserStackBudget ≤ 1024 * 1024 ∧ TsrunVerif.Gen.compilerStackBudget ≤ 1024 * 1024 ∧
    TsrunVerif.Gen.chainLinkSites = 5 ∧ TsrunVerif.Gen.chainScopeSites = 3 := by decide

namespace TsrunVerif.Parse

mutual
theorem costAgain_eq_size : ∀ s : Sk, costAgain s = size s
  | .node cs => by simp [costAgain, size, costAgains_eq_sizes cs]
theorem costAgains_eq_sizes : ∀ cs : List Sk, costAgains cs = sizes cs
  | [] => by simp [costAgains, sizes]
  | c :: cs => by simp [costAgains, sizes, costAgain_eq_size c, costAgains_eq_sizes cs]
end

theorem depth_pos : ∀ s : Sk, 1 ≤ depth s
  | .node cs => by simp [depth]

mutual
theorem depth_le_size : ∀ s : Sk, depth s ≤ size s
  | .node cs => by
      have := depths_le_sizes cs
      simp only [depth, size]; omega
theorem depths_le_sizes : ∀ cs : List Sk, depths cs ≤ sizes cs
  | [] => by simp [depths, sizes]
  | c :: cs => by
      have h1 := depth_le_size c
      have h2 := depths_le_sizes cs
      simp only [depths, sizes]
      omega
end

mutual
/-- first visit with the failure memo: at most (number of constructs) × (nesting depth) -/
theorem costFirst_le : ∀ s : Sk, costFirst s ≤ size s * depth s
  | .node cs => by
      have h := costFirsts_le cs
      have ha := costAgains_eq_sizes cs
      simp only [costFirst, size, depth, ha]
      -- 1 + F + S ≤ (1 + S) * (1 + D)   with F ≤ S * D
      have : (1 + sizes cs) * (1 + depths cs) = 1 + depths cs + sizes cs + sizes cs * depths cs := by
        simp only [Nat.add_mul, Nat.mul_add, Nat.one_mul, Nat.mul_one]; omega
      omega
theorem costFirsts_le : ∀ cs : List Sk, costFirsts cs ≤ sizes cs * depths cs
  | [] => by simp [costFirsts, sizes]
  | c :: cs => by
      have h1 := costFirst_le c
      have h2 := costFirsts_le cs
      simp only [costFirsts, sizes, depths]
      have hm1 : depth c ≤ max (depth c) (depths cs) := Nat.le_max_left _ _
      have hm2 : depths cs ≤ max (depth c) (depths cs) := Nat.le_max_right _ _
      have a1 : size c * depth c ≤ size c * max (depth c) (depths cs) := Nat.mul_le_mul_left _ hm1
      have a2 : sizes cs * depths cs ≤ sizes cs * max (depth c) (depths cs) := Nat.mul_le_mul_left _ hm2
      rw [Nat.add_mul]
      omega
end

/-- **Bounded work.** With the memo the speculative parse of any nesting structure costs at most
quadratically many construct visits. -/
theorem costFirst_quadratic (s : Sk) : costFirst s ≤ size s * size s :=
  Nat.le_trans (costFirst_le s) (Nat.mul_le_mul_left _ (depth_le_size s))

/-- **Without the memo the work is exponential**: `k` nested speculative constructs cost
`2^(k+1) - 1` visits. -/
theorem costNaive_chain (k : Nat) : costNaive (chain k) + 1 = 2 ^ (k + 1) := by
  induction k with
  | zero => simp [chain, costNaive, costNaives]
  | succ k ih =>
    simp only [chain, costNaive, costNaives, Nat.add_zero]
    rw [Nat.pow_succ]
    omega

theorem size_chain (k : Nat) : size (chain k) = k + 1 := by
  induction k with
  | zero => simp [chain, size, sizes]
  | succ k ih => simp only [chain, size, sizes, ih]; omega

mutual
/-- **Bounded recursion.** Whatever the input, the guarded descent never enters a level beyond
`limit + 1` (the level at which it notices and refuses). -/
theorem guard_bounds_recursion (limit : Nat) : ∀ (d : Nat) (s : Sk), reached limit d s ≤ max d (limit + 1)
  | d, .node cs => by
      simp only [reached]
      split
      · have := guard_bounds_recursions limit (d + 1) cs
        omega
      · omega
theorem guard_bounds_recursions (limit : Nat) : ∀ (d : Nat) (cs : List Sk), reacheds limit d cs ≤ max d (limit + 1)
  | d, [] => by simp [reacheds]
  | d, c :: cs => by
      have h1 := guard_bounds_recursion limit d c
      have h2 := guard_bounds_recursions limit d cs
      simp only [reacheds]
      omega
end

mutual
/-- **Clean acceptance / rejection.** The guarded descent accepts exactly the inputs whose nesting
fits: acceptance depends on the depth alone and is monotone in it. -/
theorem guard_accepts_iff (limit : Nat) : ∀ (d : Nat) (s : Sk), parseG limit d s = true ↔ d + depth s ≤ limit + 1
  | d, .node cs => by
      have h := guards_accept_iff limit (d + 1) cs
      simp only [parseG, depth, Bool.and_eq_true, decide_eq_true_eq, h]
      constructor
      · intro ⟨h1, h2⟩
        rcases h2 with h2 | h2
        · subst h2; simp [depths]; omega
        · omega
      · intro h1
        refine ⟨by omega, ?_⟩
        by_cases hc : cs = []
        · exact Or.inl hc
        · exact Or.inr (by omega)
theorem guards_accept_iff (limit : Nat) : ∀ (d : Nat) (cs : List Sk),
    parseGs limit d cs = true ↔ (cs = [] ∨ d + depths cs ≤ limit + 1)
  | d, [] => by simp [parseGs]
  | d, c :: cs => by
      have h1 := guard_accepts_iff limit d c
      have h2 := guards_accept_iff limit d cs
      simp only [parseGs, Bool.and_eq_true, h1, h2, depths, List.cons_ne_nil, false_or]
      constructor
      · intro ⟨a, b⟩
        rcases b with b | b
        · subst b; simp [depths]; omega
        · omega
      · intro a
        refine ⟨by omega, ?_⟩
        by_cases hc : cs = []
        · exact Or.inl hc
        · exact Or.inr (by omega)
end

/-- a loop that builds a chain of `n` links builds a tree of depth `n + 1`: bounding the number of
links (`MAX_CHAIN`) bounds the recursion of every later traversal. -/
theorem leftDeep_depth (n : Nat) : depth (leftDeep n) = n + 1 := by
  induction n with
  | zero => simp [leftDeep, depth, depths]
  | succ n ih =>
    simp only [leftDeep, depth, depths, ih]
    omega

/-! ### loop-built chains inside nested constructs -/

mutual
/-- accounting invariant and bound: if the parser's accounting lets a tree through from state
`(l, n)` and ends in `(l', n')`, then the counters only grow, the depth the loops added is covered
by what was counted (`tdepth t + l ≤ rdepth t + l' + n'`), and the tree is at most `MAX_CHAIN`
deeper than the parser's own recursion. -/
theorem scan_inv (M : Nat) : ∀ (t : Tr) (l n l' n' : Nat), scan M t (l, n) = some (l', n') →
    l ≤ l' ∧ n ≤ n' ∧ tdepth t + l ≤ rdepth t + l' + n' ∧ tdepth t ≤ rdepth t + M
  | .leaf, l, n, l', n', h => by
      simp only [scan, Option.some.injEq, Prod.mk.injEq] at h
      obtain ⟨h1, h2⟩ := h; subst h1; subst h2
      simp [tdepth, rdepth]
  | .wrap cs, l, n, l', n', h => by
      simp only [scan] at h
      obtain ⟨h1, h2, h3, h4⟩ := scopes_inv M cs l n l' n' h
      subst h1
      simp only [tdepth, rdepth]
      omega
  | .chain hd ops, l, n, l', n', h => by
      simp only [scan] at h
      cases hh : scan M hd (l, n) with
      | none => simp [hh] at h
      | some st1 =>
        obtain ⟨l1, n1⟩ := st1
        simp only [hh] at h
        obtain ⟨a1, a2, a3, a4⟩ := scan_inv M hd l n l1 n1 hh
        obtain ⟨b1, b2, b3, b4⟩ := links_inv M ops l1 n1 l' n' (tdepth hd) (rdepth hd) l h a3 a1 a4
        simp only [tdepth, rdepth]
        omega
theorem scopes_inv (M : Nat) : ∀ (cs : List Tr) (l n l' n' : Nat), scanScopes M cs (l, n) = some (l', n') →
    l' = l ∧ n ≤ n' ∧ tdepths cs ≤ rdepths cs + n' ∧ tdepths cs ≤ rdepths cs + M
  | [], l, n, l', n', h => by
      simp only [scanScopes, Option.some.injEq, Prod.mk.injEq] at h
      obtain ⟨h1, h2⟩ := h; subst h1; subst h2
      simp [tdepths, rdepths]
  | c :: cs, l, n, l', n', h => by
      simp only [scanScopes] at h
      cases hc : scan M c (0, 0) with
      | none => simp [hc] at h
      | some tot =>
        obtain ⟨lc, nc⟩ := tot
        simp only [hc] at h
        obtain ⟨_, _, a3, a4⟩ := scan_inv M c 0 0 lc nc hc
        obtain ⟨b1, b2, b3, b4⟩ := scopes_inv M cs l (max n (lc + nc)) l' n' h
        simp only [tdepths, rdepths]
        omega
theorem links_inv (M : Nat) : ∀ (ops : List Tr) (l n l' n' d R l0 : Nat), scanLinks M ops (l, n) = some (l', n') →
    d + l0 ≤ R + l + n → l0 ≤ l → d ≤ R + M →
    l ≤ l' ∧ n ≤ n' ∧ spine d ops + l0 ≤ max R (1 + rdepths ops) + l' + n' ∧
      spine d ops ≤ max R (1 + rdepths ops) + M
  | [], l, n, l', n', d, R, l0, h, h1, h2, h3 => by
      simp only [scanLinks, Option.some.injEq, Prod.mk.injEq] at h
      obtain ⟨e1, e2⟩ := h; subst e1; subst e2
      simp only [spine, rdepths]
      omega
  | o :: os, l, n, l', n', d, R, l0, h, h1, h2, h3 => by
      simp only [scanLinks] at h
      by_cases hm : l + 1 + n > M
      · simp [hm] at h
      · simp only [hm, if_false] at h
        cases ho : scan M o (l + 1, n) with
        | none => simp [ho] at h
        | some st' =>
          obtain ⟨l2, n2⟩ := st'
          simp only [ho] at h
          obtain ⟨a1, a2, a3, a4⟩ := scan_inv M o (l + 1) n l2 n2 ho
          obtain ⟨b1, b2, b3, b4⟩ := links_inv M os l2 n2 l' n' (1 + max d (tdepth o)) (max R (1 + rdepth o)) l0 h
            (by omega) (by omega) (by omega)
          simp only [spine, rdepths]
          omega
end

/-- **Chains cannot stack through nested constructs**: whatever the parser's accounting accepts is
at most `MAX_CHAIN` levels deeper than the parser's own (guarded) recursion - for every tree,
however the chains are distributed over heads, operands and nested constructs. -/
theorem chain_accounting_bounds_depth (M : Nat) (t : Tr) (st : Nat × Nat)
    (h : scan M t (0, 0) = some st) : tdepth t ≤ rdepth t + M := by
  obtain ⟨l', n'⟩ := st
  exact (scan_inv M t 0 0 l' n' h).2.2.2

/-- the family the per-loop limit let through: `d` nested groups, each the head of a chain of `k`
links, have depth `d * (k + 1) + 1` with recursion depth `d + 1` only -/
theorem nestedChains_tdepth (k : Nat) : ∀ d, tdepth (nestedChains k d) = d * (k + 1) + 1
  | 0 => by simp [nestedChains, tdepth]
  | d + 1 => by
      have ih := nestedChains_tdepth k d
      have hs : ∀ (m : Nat) (x : Nat), 1 ≤ x → spine x (List.replicate m Tr.leaf) = x + m := by
        intro m
        induction m with
        | zero => intro x _; simp [spine]
        | succ m ihm =>
          intro x hx
          simp only [List.replicate_succ, spine, tdepth]
          rw [ihm (1 + max x 1) (by omega)]
          omega
      simp only [nestedChains, tdepth, tdepths, ih]
      rw [hs k _ (by omega)]
      simp [Nat.succ_mul]
      omega

-- non-vacuity: 4 groups x 9990 links were accepted by a per-loop limit of 10000; the accounting refuses them,
-- and accepts what stays within the limit
example : (scan 40 (nestedChains 10 3) (0, 0)).isSome = true := by decide
example : (scan 40 (nestedChains 10 5) (0, 0)).isSome = false := by decide
example : tdepth (nestedChains 9990 4) = 39965 := by rw [nestedChains_tdepth]

-- non-vacuity / concrete values
example : costNaive (chain 24) = 33554431 := by decide
example : costFirst (chain 24) = 325 := by decide
example : parseG 10 0 (chain 10) = true ∧ parseG 10 0 (chain 11) = false := by decide

end TsrunVerif.Parse
