import TsrunVerif.Model.Parse
/-!
C05 — every source text is accepted or rejected cleanly, in bounded time.
Property theorems over M-Parse (`Model/Parse.lean`): work of the speculative parse with and
without the failure memo, recursion depth under the guard, depth of loop-built chains.
-/
namespace TsrunVerif.Parse

mutual
theorem costAgain_eq_size : ∀ s : Sk, costAgain s = size s
  | .node cs => by simp [costAgain, size, costAgains_eq_sizes cs]
theorem costAgains_eq_sizes : ∀ cs : List Sk, costAgains cs = sizes cs
  | [] => by simp [costAgains, sizes]
  | c :: cs => by simp [costAgains, sizes, costAgain_eq_size c, costAgains_eq_sizes cs]
end

theorem depth_pos : ∀ s : Sk, 1 ≤ depth s
  | .node cs => by simp [depth]

mutual
theorem depth_le_size : ∀ s : Sk, depth s ≤ size s
  | .node cs => by
      have := depths_le_sizes cs
      simp only [depth, size]; omega
theorem depths_le_sizes : ∀ cs : List Sk, depths cs ≤ sizes cs
  | [] => by simp [depths, sizes]
  | c :: cs => by
      have h1 := depth_le_size c
      have h2 := depths_le_sizes cs
      simp only [depths, sizes]
      omega
end

mutual
/-- first visit with the failure memo: at most (number of constructs) × (nesting depth) -/
theorem costFirst_le : ∀ s : Sk, costFirst s ≤ size s * depth s
  | .node cs => by
      have h := costFirsts_le cs
      have ha := costAgains_eq_sizes cs
      simp only [costFirst, size, depth, ha]
      -- 1 + F + S ≤ (1 + S) * (1 + D)   with F ≤ S * D
      have : (1 + sizes cs) * (1 + depths cs) = 1 + depths cs + sizes cs + sizes cs * depths cs := by
        simp only [Nat.add_mul, Nat.mul_add, Nat.one_mul, Nat.mul_one]; omega
      omega
theorem costFirsts_le : ∀ cs : List Sk, costFirsts cs ≤ sizes cs * depths cs
  | [] => by simp [costFirsts, sizes]
  | c :: cs => by
      have h1 := costFirst_le c
      have h2 := costFirsts_le cs
      simp only [costFirsts, sizes, depths]
      have hm1 : depth c ≤ max (depth c) (depths cs) := Nat.le_max_left _ _
      have hm2 : depths cs ≤ max (depth c) (depths cs) := Nat.le_max_right _ _
      have a1 : size c * depth c ≤ size c * max (depth c) (depths cs) := Nat.mul_le_mul_left _ hm1
      have a2 : sizes cs * depths cs ≤ sizes cs * max (depth c) (depths cs) := Nat.mul_le_mul_left _ hm2
      rw [Nat.add_mul]
      omega
end

/-- **Bounded work.** With the memo the speculative parse of any nesting structure costs at most
quadratically many construct visits. -/
theorem costFirst_quadratic (s : Sk) : costFirst s ≤ size s * size s :=
  Nat.le_trans (costFirst_le s) (Nat.mul_le_mul_left _ (depth_le_size s))

/-- **Without the memo the work is exponential**: `k` nested speculative constructs cost
`2^(k+1) - 1` visits. -/
theorem costNaive_chain (k : Nat) : costNaive (chain k) + 1 = 2 ^ (k + 1) := by
  induction k with
  | zero => simp [chain, costNaive, costNaives]
  | succ k ih =>
    simp only [chain, costNaive, costNaives, Nat.add_zero]
    rw [Nat.pow_succ]
    omega

theorem size_chain (k : Nat) : size (chain k) = k + 1 := by
  induction k with
  | zero => simp [chain, size, sizes]
  | succ k ih => simp only [chain, size, sizes, ih]; omega

mutual
/-- **Bounded recursion.** Whatever the input, the guarded descent never enters a level beyond
`limit + 1` (the level at which it notices and refuses). -/
theorem guard_bounds_recursion (limit : Nat) : ∀ (d : Nat) (s : Sk), reached limit d s ≤ max d (limit + 1)
  | d, .node cs => by
      simp only [reached]
      split
      · have := guard_bounds_recursions limit (d + 1) cs
        omega
      · omega
theorem guard_bounds_recursions (limit : Nat) : ∀ (d : Nat) (cs : List Sk), reacheds limit d cs ≤ max d (limit + 1)
  | d, [] => by simp [reacheds]
  | d, c :: cs => by
      have h1 := guard_bounds_recursion limit d c
      have h2 := guard_bounds_recursions limit d cs
      simp only [reacheds]
      omega
end

mutual
/-- **Clean acceptance / rejection.** The guarded descent accepts exactly the inputs whose nesting
fits: acceptance depends on the depth alone and is monotone in it. -/
theorem guard_accepts_iff (limit : Nat) : ∀ (d : Nat) (s : Sk), parseG limit d s = true ↔ d + depth s ≤ limit + 1
  | d, .node cs => by
      have h := guards_accept_iff limit (d + 1) cs
      simp only [parseG, depth, Bool.and_eq_true, decide_eq_true_eq, h]
      constructor
      · intro ⟨h1, h2⟩
        rcases h2 with h2 | h2
        · subst h2; simp [depths]; omega
        · omega
      · intro h1
        refine ⟨by omega, ?_⟩
        by_cases hc : cs = []
        · exact Or.inl hc
        · exact Or.inr (by omega)
theorem guards_accept_iff (limit : Nat) : ∀ (d : Nat) (cs : List Sk),
    parseGs limit d cs = true ↔ (cs = [] ∨ d + depths cs ≤ limit + 1)
  | d, [] => by simp [parseGs]
  | d, c :: cs => by
      have h1 := guard_accepts_iff limit d c
      have h2 := guards_accept_iff limit d cs
      simp only [parseGs, Bool.and_eq_true, h1, h2, depths, List.cons_ne_nil, false_or]
      constructor
      · intro ⟨a, b⟩
        rcases b with b | b
        · subst b; simp [depths]; omega
        · omega
      · intro a
        refine ⟨by omega, ?_⟩
        by_cases hc : cs = []
        · exact Or.inl hc
        · exact Or.inr (by omega)
end

/-- a loop that builds a chain of `n` links builds a tree of depth `n + 1`: bounding the number of
links (`MAX_CHAIN`) bounds the recursion of every later traversal. -/
theorem leftDeep_depth (n : Nat) : depth (leftDeep n) = n + 1 := by
  induction n with
  | zero => simp [leftDeep, depth, depths]
  | succ n ih =>
    simp only [leftDeep, depth, depths, ih]
    omega

-- non-vacuity / concrete values
example : costNaive (chain 24) = 33554431 := by decide
example : costFirst (chain 24) = 325 := by decide
example : parseG 10 0 (chain 10) = true ∧ parseG 10 0 (chain 11) = false := by decide

end TsrunVerif.Parse
