import TsrunVerif.Model.Roots
import TsrunVerif.Lemmas.HeapCollect

/-!
# C14 — garbage is reclaimed: repeated work does not grow the heap

Two layers.
* Heap layer (M-Heap, from C13): a collection reclaims *every* object that is not reachable from
  a live guard, cycles included (`collect_frees_unreachable`), and only those.
* Root layer (M-Roots): the scope-guard stack always holds exactly one guard per open scope and
  per call frame (`guards_exact`, for every event sequence), hence it is back at its starting
  height whenever a run has ended — by completing, by an uncaught error at any depth, or by
  returning/breaking out of any nesting of blocks (`roots_balanced`), and repeating a run any
  number of times leaves it unchanged (`repeat_constant`).
-/
namespace TsrunVerif.Roots

/-- **guards_exact** (invariant): `env_guards.len()` = base + open scopes + call frames. -/
def Inv (base : Nat) (s : St) : Prop := s.guards = base + expected s

theorem inv_init (base : Nat) : Inv base { St.init with guards := base } := by
  simp [Inv, expected, St.init]

theorem inv_step (base : Nat) (s : St) (e : Ev) (h : Inv base s) : Inv base (step s e) := by
  unfold Inv expected at *
  cases e with
  | pushScope => simp only [step]; omega
  | popScope =>
    simp only [step]
    split
    · exact h
    · simp only; omega
  | call => simp only [step, List.sum_cons, List.length_cons]; omega
  | ret =>
    simp only [step]
    cases hf : s.frames with
    | nil => simp only [hf, List.sum_nil, List.length_nil] at h ⊢; omega
    | cons c rest => simp only [hf, List.sum_cons, List.length_cons] at h ⊢; omega
  | leaveTo d =>
    simp only [step]
    split
    · simp only; omega
    · exact h
  | unwindFrame =>
    simp only [step]
    cases hf : s.frames with
    | nil => simp only [hf, List.sum_nil, List.length_nil] at h ⊢; omega
    | cons c rest => simp only [hf, List.sum_cons, List.length_cons] at h ⊢; omega
  | uncaught => simp only [step, List.sum_nil, List.length_nil]; omega

theorem inv_run (base : Nat) (evs : List Ev) : ∀ s, Inv base s → Inv base (run s evs) := by
  induction evs with
  | nil => intro s h; exact h
  | cons e t ih => intro s h; exact ih _ (inv_step base s e h)

/-- **roots_balanced**: for every event sequence, when the run is over (no frame, no open
scope: it completed, or an uncaught error unwound everything) the guard stack is back at the
height it had before the run. -/
theorem roots_balanced (base : Nat) (evs : List Ev) (s : St) (h : Inv base s)
    (hdone : (run s evs).cur = 0 ∧ (run s evs).frames = []) : (run s evs).guards = base := by
  have := inv_run base evs s h
  unfold Inv expected at this
  rw [hdone.1, hdone.2] at this
  simpa using this

/-- an uncaught error always ends the run in the balanced state, whatever was open. -/
theorem uncaught_balanced (base : Nat) (evs : List Ev) (s : St) (h : Inv base s) :
    (run s (evs ++ [.uncaught])).guards = base := by
  apply roots_balanced base _ s h
  simp [run, List.foldl_append, step]

theorem inv_repeat (base : Nat) (evs : List Ev) (s : St) (h : Inv base s) :
    ∀ n, Inv base (Nat.repeat (fun st => run st evs) n s) := by
  intro n
  induction n with
  | zero => exact h
  | succ m ihm => simp only [Nat.repeat]; exact inv_run base evs _ ihm

/-- **repeat_constant**: `k ≥ 1` repetitions of a run that ends leave the guard stack at its
starting height (so nothing the run rooted through scope guards survives it). -/
theorem repeat_constant (base : Nat) (evs : List Ev)
    (hend : ∀ s, Inv base s → (run s evs).cur = 0 ∧ (run s evs).frames = [])
    (k : Nat) (s : St) (h : Inv base s) :
    (Nat.repeat (fun st => run st evs) (k + 1) s).guards = base := by
  simp only [Nat.repeat]
  have hinv := inv_repeat base evs s h k
  exact roots_balanced base evs _ hinv (hend _ hinv)

end TsrunVerif.Roots

namespace TsrunVerif.Heap

/-- **collect_frees_unreachable**: after a collection every slot that no live guard reaches —
members of unreachable cycles included, since reachability is from the roots only — is pooled
(reset and reusable), and every reachable slot is untouched. -/
theorem collect_frees_unreachable (h : Heap) (i : Nat) (s : Slot) (hs : h.slots[i]? = some s) :
    (¬ Reach h i → pooledAt (collect h) i = true) ∧ (Reach h i → (collect h).slots[i]? = some s) := by
  constructor
  · intro hr
    cases hp : pooledAt (collect h) i with
    | true => rfl
    | false => exact absurd ((collect_exact h i).mp hp) hr
  · intro hr
    rw [collect_keeps_reachable h i hr]; exact hs

/-- a two-element cycle that nothing roots is reclaimed. -/
example : let h : Heap := { Heap.init with slots := [⟨1, [1], false⟩, ⟨2, [0], false⟩], guards := [⟨true, []⟩] }
    (collect h).slots = [⟨0, [], true⟩, ⟨0, [], true⟩] := by decide

end TsrunVerif.Heap

namespace TsrunVerif.Roots
/-! ## non-vacuity: return from nested blocks inside a call, then break out of a block -/
example : run { St.init with guards := 3 } [.pushScope, .call, .pushScope, .pushScope, .ret, .leaveTo 0] = { cur := 0, frames := [], guards := 3 } := by decide
example : Inv 3 { St.init with guards := 3 } := inv_init 3
end TsrunVerif.Roots
