import TsrunVerif.Model.Life
import TsrunVerif.Props.C14

/-!
# C11 — an interpreter stays usable and clean after failed or abandoned runs
-/
namespace TsrunVerif.Life
open TsrunVerif.Roots

theorem rest_init : Rest L.init := by simp [Rest, L.init, St.init]

/-- **quiescent_after_error**: whatever the run was doing (any depth of calls, blocks, try
statements, a module body with half-registered exports), an uncaught error leaves nothing. -/
theorem quiescent_after_error (l : L) : Rest (step l .error) := by
  simp [step, abandon, Rest, L.init, St.init]

/-- bookkeeping invariant while a run is active: the guard stack matches the VM's frames
(M-Roots invariant with base 0) and the trace stack mirrors the frames. -/
def Wf (l : L) : Prop := Roots.Inv 0 l.vm ∧ l.callStack = l.vm.frames.length

theorem wf_init : Wf L.init := by simp [Wf, Roots.Inv, Roots.expected, L.init, St.init]

theorem wf_step (l : L) (e : Ev) (h : Wf l) : Wf (step l e) := by
  cases e with
  | prepare m =>
    simp only [step]
    split
    · simp [Wf, abandon, Roots.Inv, Roots.expected, L.init, St.init]
    · exact h
  | vm ev =>
    simp only [step]
    split
    · exact ⟨Roots.inv_step 0 l.vm ev h.1, rfl⟩
    · exact h
  | «export» => simp only [step]; split <;> exact h
  | complete => simp only [step]; split <;> exact h
  | error => simp [step, Wf, abandon, Roots.Inv, Roots.expected, L.init, St.init]

theorem wf_run (evs : List Ev) : ∀ l, Wf l → Wf (run l evs) := by
  induction evs with
  | nil => intro l h; exact h
  | cons e t ih => intro l h; exact ih _ (wf_step l e h)

/-- **quiescent_after_complete**: when the VM has finished (no frame, no open scope) `complete`
leaves nothing either — in particular no scope guard and no call-stack entry. -/
theorem quiescent_after_complete (l : L) (h : Wf l) (ha : l.activeVm = true)
    (hdone : l.vm.cur = 0 ∧ l.vm.frames = []) : Rest (step l .complete) := by
  obtain ⟨hi, hc⟩ := h
  unfold Roots.Inv Roots.expected at hi
  rw [hdone.1, hdone.2] at hi
  have hg : l.vm.guards = 0 := by simpa using hi
  have hcs : l.callStack = 0 := by rw [hc, hdone.2]; rfl
  simp [step, ha, Rest, hdone.1, hdone.2, hg, hcs]

/-- **abandon_then_prepare_clean (full statement)**: `prepare` after *any* history — a run
abandoned at an arbitrary step inside arbitrary nesting included — gives exactly the state that
`prepare` gives on an interpreter whose previous runs all ended properly. -/
theorem abandon_then_prepare_clean (l : L) (m : Bool) (ha : l.activeVm = true) :
    step l (.prepare m) = step L.init (.prepare m) := by
  simp [step, ha, abandon, L.init]

/-- `prepare` from a state at rest does not depend on which state at rest it is. -/
theorem prepare_from_rest (l : L) (m : Bool) (h : Rest l) : step l (.prepare m) = step L.init (.prepare m) := by
  obtain ⟨h1, h2, h3, h4, h5, h6, h7, h8, h9⟩ := h
  cases l with
  | mk vm a b c d e f =>
    cases vm with
    | mk cur frames guards =>
      simp only at h1 h2 h3 h4 h5 h6 h7 h8 h9
      subst h1 h2 h3 h4 h5 h6 h7 h8 h9
      simp [step, L.init, St.init]

/-- **observer_equiv**: a run (any event sequence that starts with `prepare`) behaves the same
on an interpreter with an arbitrary history of failed or abandoned runs as on a fresh one,
as far as the lifecycle state can tell — provided the previous run either was still active
(abandoned) or had ended in a state at rest. -/
theorem observer_equiv (l : L) (m : Bool) (evs : List Ev) (h : l.activeVm = true ∨ Rest l) :
    run l (.prepare m :: evs) = run L.init (.prepare m :: evs) := by
  simp only [run, List.foldl_cons]
  rcases h with ha | hr
  · rw [abandon_then_prepare_clean l m ha]
  · rw [prepare_from_rest l m hr]

/-- every history ends at rest or with a run still in progress, never in between:
after each `error`, and after each `complete` of a finished VM, the state is at rest. -/
theorem history_rest_or_active (evs : List Ev) : ∀ l, Wf l → Wf (run l (evs ++ [.error])) ∧ Rest (run l (evs ++ [.error])) := by
  intro l h
  refine ⟨wf_run _ l h, ?_⟩
  simp only [run, List.foldl_append, List.foldl_cons, List.foldl_nil]
  exact quiescent_after_error _

/-! ## non-vacuity -/
example : Rest (run L.init [.prepare true, .vm .pushScope, .vm .call, .vm .pushScope, .export, .error]) := by unfold Rest; decide
example : run L.init [.prepare false, .vm .call, .vm .pushScope, .prepare true, .export, .vm .pushScope, .vm .popScope, .complete]
    = L.init := by decide
example : ¬ Rest (run L.init [.prepare false, .vm .call, .vm .pushScope]) := by unfold Rest; decide

end TsrunVerif.Life
