import TsrunVerif.Gen.ResetFields
/-!
# C02 / C14 — a reused slot is a fresh object (M-Reset)

The collector does not free memory: a swept object is `reset()` and its slot is handed to a later allocation.  Garbage
collection is invisible only if nothing of the dead object survives that: field by field, `reset` must leave what
`JsObject::new()` would build.  `Gen/ResetFields.lean` is regenerated from `src/value.rs` on every run (the field list of
`struct JsObject`, the assignments of `impl Reset for JsObject`, the literal of `JsObject::new()`).

Model: an object is a finite map field ↦ value; `resetSlot` applies the assignments of the current source to ANY state
the dead object may have been left in.  `reset_forgets`: the result does not depend on that state and is the fresh object.
-/
namespace TsrunVerif.ResetObj
open TsrunVerif.Gen

/-- reviewed equivalence: clearing the property storage in place leaves the storage `PropertyStorage::new()` builds
(the retained capacity is not observable by a program) -/
def norm (field v : String) : String :=
  if v = "<clear>" ∧ field = "properties" then "PropertyStorage::new()" else v

/-- an object state: the value held by every field (fields absent from the list hold the given default text) -/
abbrev Obj := List (String × String)

/-- the slot after `reset()`: a field the impl assigns holds the assigned value, any other field keeps the dead object's -/
def resetSlot (dead : Obj) : Obj :=
  objFields.map fun f => (f, match objReset.lookup f with
    | some v => norm f v
    | none => (dead.lookup f).getD "<stale>")

/-- the object `JsObject::new()` builds -/
def fresh : Obj := objFields.map fun f => (f, (objNew.lookup f).getD "<unset>")

/-- the obligation over the current source: every field of the struct is assigned by `reset`, to the value `new()` gives it -/
def resetIsFresh : Bool :=
  objFields.all fun f => (objNew.lookup f).isSome && ((objReset.lookup f).map (norm f) == objNew.lookup f)

theorem reset_is_fresh : resetIsFresh = true := by decide

/-- whatever the dead object held, the reused slot is the fresh object: nothing survives a sweep -/
theorem reset_forgets (dead : Obj) : resetSlot dead = fresh := by
  unfold resetSlot fresh
  apply List.map_congr_left
  intro f hf
  have h := (List.all_eq_true.mp reset_is_fresh) f hf
  simp only [Bool.and_eq_true, beq_iff_eq] at h
  obtain ⟨h1, h2⟩ := h
  cases hr : objReset.lookup f with
  | none => rw [hr] at h2; simp at h2; rw [← h2] at h1; simp at h1
  | some v => rw [hr] at h2; simp at h2; simp [← h2]

/-- two dead objects in any two states leave indistinguishable slots (the statement C02 needs: the history of a slot is invisible) -/
theorem reset_history_invisible (d₁ d₂ : Obj) : resetSlot d₁ = resetSlot d₂ := by
  rw [reset_forgets, reset_forgets]

/-- non-vacuity: a sealed, frozen dead object with properties really differs from the fresh one before the reset -/
example : ([("sealed", "true"), ("frozen", "true"), ("properties", "{a: 1}")] : Obj).lookup "sealed" ≠ fresh.lookup "sealed" := by decide

end TsrunVerif.ResetObj
