import TsrunVerif.Model.Iso
import TsrunVerif.Gen.Globals
import TsrunVerif.Lemmas.GlobalsAllow

/-!
# C12 — execution is deterministic and instances are isolated
-/
namespace TsrunVerif.Iso

/-- **product_isolation**: in any interleaving of the steps of two instances, what instance 1
does (its outputs and its final state) is exactly what it does running alone on its own
actions — and likewise instance 2. -/
theorem product_isolation {S A O : Type} (step : S → A → S × O) (acts : List (Bool × A)) :
    ∀ (s1 s2 : S),
      ((runProd step (s1, s2) acts).1.1 = (runSolo step s1 (proj true acts)).1 ∧
       proj true (runProd step (s1, s2) acts).2 = (runSolo step s1 (proj true acts)).2) ∧
      ((runProd step (s1, s2) acts).1.2 = (runSolo step s2 (proj false acts)).1 ∧
       proj false (runProd step (s1, s2) acts).2 = (runSolo step s2 (proj false acts)).2) := by
  induction acts with
  | nil => intro s1 s2; simp [runProd, runSolo, proj]
  | cons x t ih =>
    intro s1 s2
    obtain ⟨b, a⟩ := x
    cases b with
    | true =>
      obtain ⟨⟨h1, h2⟩, ⟨h3, h4⟩⟩ := ih (step s1 a).1 s2
      simp [proj] at h2 h4
      simp [runProd, proj, runSolo, h1, h2, h3, h4]
    | false =>
      obtain ⟨⟨h1, h2⟩, ⟨h3, h4⟩⟩ := ih s1 (step s2 a).1
      simp [proj] at h2 h4
      simp [runProd, proj, runSolo, h1, h2, h3, h4]

/-- determinism of a run is immediate (a run is a function of state and actions); stated for
the record: equal inputs, equal outputs. -/
theorem run_deterministic {S A O : Type} (step : S → A → S × O) (s : S) (as bs : List A) (h : as = bs) :
    runSolo step s as = runSolo step s bs := by rw [h]

/-! ## address-keyed tables never leak addresses through lookups -/

def renameTable {K K' V : Type} (ρ : K → K') (t : List (K × V)) : List (K' × V) := t.map (fun p => (ρ p.1, p.2))

theorem find_rename {K K' V : Type} [DecidableEq K] [DecidableEq K'] (ρ : K → K') (hρ : Function.Injective ρ) (k : K) :
    ∀ t : List (K × V), ((List.find? (fun p => p.1 = ρ k) (t.map (fun p => (ρ p.1, p.2)))).map (·.2))
      = ((t.find? (fun p => p.1 = k)).map (·.2)) := by
  intro t
  induction t with
  | nil => rfl
  | cons p rest ih =>
    simp only [List.map_cons, List.find?_cons]
    by_cases h : p.1 = k
    · simp [h]
    · have h' : ¬ ρ p.1 = ρ k := fun e => h (hρ e)
      simp only [h, h', decide_false]
      exact ih

theorem tstep_rename {K K' V : Type} [DecidableEq K] [DecidableEq K'] (ρ : K → K') (hρ : Function.Injective ρ)
    (t : List (K × V)) (op : TOp K V) :
    (tstep (renameTable ρ t) (op.rename ρ)).1 = renameTable ρ (tstep t op).1 ∧
    (tstep (renameTable ρ t) (op.rename ρ)).2 = (tstep t op).2 := by
  have hne : ∀ a b : K, (ρ a ≠ ρ b) ↔ (a ≠ b) := fun a b => ⟨fun h e => h (e ▸ rfl), fun h e => h (hρ e)⟩
  have heq : ∀ a b : K, (ρ a = ρ b) ↔ (a = b) := fun a b => ⟨fun e => hρ e, fun e => e ▸ rfl⟩
  cases op with
  | insert k v =>
    simp only [TOp.rename, tstep, renameTable, List.map_cons, List.filter_map, and_true]
    congr 1
    congr 1
    apply List.filter_congr
    intro p _
    simp [Function.comp, hne]
  | get k =>
    simp only [TOp.rename, tstep, renameTable, true_and]
    congr 1
    exact find_rename ρ hρ k t
  | remove k =>
    simp only [TOp.rename, tstep, renameTable, List.filter_map, and_true]
    congr 1
    apply List.filter_congr
    intro p _
    simp [Function.comp, hne]
  | contains k =>
    simp only [TOp.rename, tstep, renameTable, true_and]
    congr 1
    induction t with
    | nil => rfl
    | cons p rest ih => simp [List.any_cons, heq, ih]

/-- **map_addr_invariant**: the results of any sequence of `insert` / `get` / `remove` /
`contains` on an address-keyed table are the same under every injective re-assignment of the
addresses — where the allocator put an interned string or a promise cannot be observed through
these tables (as long as they are not iterated, which `iterations_allowed` pins). -/
theorem map_addr_invariant {K K' V : Type} [DecidableEq K] [DecidableEq K'] (ρ : K → K') (hρ : Function.Injective ρ)
    (ops : List (TOp K V)) : ∀ t : List (K × V),
      trun (renameTable ρ t) (ops.map (TOp.rename ρ)) = trun t ops := by
  induction ops with
  | nil => intro t; rfl
  | cons op rest ih =>
    intro t
    obtain ⟨h1, h2⟩ := tstep_rename ρ hρ t op
    simp only [List.map_cons, trun, h2, h1]
    rw [ih]

end TsrunVerif.Iso

namespace TsrunVerif.Gen
/-- **no_shared_state** (obligation over the generated inventory, re-checked on every run): the
crate declares no process-global mutable state outside the committed allowlist. -/
theorem globals_allowed : globalItems.all (fun x => allowedGlobals.contains x) = true := by decide

/-- every iteration over an address-keyed table is one of the reviewed, order-insensitive ones. -/
theorem iterations_allowed : addrKeyedIterations.all (fun x => allowedAddrKeyedIterations.contains x) = true := by decide
end TsrunVerif.Gen

namespace TsrunVerif.Iso
/-! ## non-vacuity -/
example : trun ([] : List (Nat × String)) [.insert 5 "a", .insert 7 "b", .get 5, .remove 5, .contains 5, .get 7]
    = [.unit, .unit, .val (some "a"), .unit, .bool false, .val (some "b")] := by decide
example : (runProd (fun (s : Nat) (a : Nat) => (s + a, s * a)) (1, 10) [(true, 2), (false, 3), (true, 4)]).2
    = [(true, 2), (false, 30), (true, 12)] := by decide
end TsrunVerif.Iso
