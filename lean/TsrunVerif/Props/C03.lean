import TsrunVerif.Lemmas.Erase
import TsrunVerif.Gen.TypeKinds
/-!
C03 — TypeScript type syntax is erased: annotations never change behaviour.
Property theorems over M-Erase (`Model/Erase.lean`).
-/
namespace TsrunVerif.Erase

/-- **Erasure removes all static syntax**: for every program (every decoration drawn from the type
grammar at every position the model has), the erased program carries no annotation, type
argument, assertion, non-null mark, modifier, overload signature or type-only statement. -/
theorem strip_plain (p : Prog) : plainSs (strip p) = true := plain_stripSs p

/-- **Erasure changes nothing else**: a program without static syntax is its own erasure. -/
theorem strip_of_plain (p : Prog) (h : plainSs p = true) : strip p = p := stripSs_of_plain p h

/-- **Erasure is a projection**: erasing twice is erasing once. -/
theorem strip_idem (p : Prog) : strip (strip p) = strip p :=
  strip_of_plain (strip p) (strip_plain p)

/-- two programs are annotation variants of each other when they erase to the same program -/
def Variant (p q : Prog) : Prop := strip p = strip q

theorem variant_refl (p : Prog) : Variant p p := rfl
theorem variant_symm {p q : Prog} (h : Variant p q) : Variant q p := h.symm
theorem variant_trans {p q r : Prog} (h₁ : Variant p q) (h₂ : Variant q r) : Variant p r := h₁.trans h₂

/-- every program is a variant of its erasure: removing all static syntax stays in the class -/
theorem variant_strip (p : Prog) : Variant p (strip p) := (strip_idem p).symm

/-- **Annotations never change behaviour.** TypeScript's meaning of a program is the meaning of its
erasure: for *any* semantics `sem` of plain programs (outcome tuples, bytecode, …), all annotation
variants of a program - in particular the program and its fully erased form - get the same
meaning. -/
theorem variants_agree {α : Type} (sem : Prog → α) (p q : Prog) (h : Variant p q) :
    sem (strip p) = sem (strip q) := by rw [h]

/-- the type grammar of the model covers every kind of type node tsrun's parser can build
(`Gen/TypeKinds.lean` is regenerated from /repo/src/ast.rs on every run). -/
theorem kinds_covered : TsrunVerif.Gen.typeKinds.all (fun k => coveredKinds.contains k) = true := by decide

-- non-vacuity: a decorated program whose erasure differs from it and is plain
example : strip [.typeAlias "T" [] (.kw "number"),
                 .decl "const" "x" false (some (.union [.kw "number", .lit "'a'"])) (.asT (.nonNull (.var "y")) (.kw "any"))]
        = [.decl "const" "x" false none (.var "y")] := by rfl

end TsrunVerif.Erase
