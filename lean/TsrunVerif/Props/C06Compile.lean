import TsrunVerif.Lemmas.CompileTargets
import TsrunVerif.Lemmas.CompileEq
import TsrunVerif.Props.C01Compile

/-!
# C06 over M-Compile: a compiled program can never make the VM run off its code

For EVERY statement of the modelled core and every run of its compiled code - terminating or not,
whatever the values, however many instructions the host lets it execute - the program counter and
every catch target on the try stack stay inside the code, so no `step` ever faults: the host that
counts steps keeps control, the VM never indexes outside the instruction array.  (The terminating
case is `program_no_fault` of C01; this one needs no termination.)
-/
set_option linter.unusedSimpArgs false
set_option linter.unusedVariables false

namespace TsrunVerif.Compile

section
variable {V Err : Type} (sem : Sem V Err)

/-- the program counter and the catch targets are positions of the code -/
def InCode (code : List Op) (s : St V) : Prop := s.pc < code.length ∧ ∀ t ∈ s.hs, t < code.length

/-- where a continuing instruction can go, and what it can do to the try stack -/
theorem exec1_next_shape (op : Op) (s s' : St V) (h : exec1 sem op s = .next s') :
    (s'.pc = s.pc + 1 ∨ s'.pc ∈ opTargets op) ∧
    (s'.hs = s.hs ∨ (∃ t, t ∈ opTargets op ∧ s'.hs = t :: s.hs) ∨ s'.hs = s.hs.tail) := by
  cases op <;> simp only [exec1] at h
  all_goals (try (split at h))
  all_goals (try (simp only [Out.next.injEq] at h))
  all_goals (try (subst h))
  all_goals (try (simp at h))
  all_goals (simp [opTargets])
  all_goals (try (split <;> simp))

theorem exec1_inCode (body : List Op) (hT : TgtLe body body.length) (s s' : St V) (op : Op)
    (hin : InCode (body ++ [.halt]) s) (hop : (body ++ [Op.halt])[s.pc]? = some op)
    (hs : exec1 sem op s = .next s') : InCode (body ++ [.halt]) s' := by
  obtain ⟨hpc, hhs⟩ := hin
  have hlen : (body ++ [Op.halt]).length = body.length + 1 := by simp
  -- the instruction is one of `body` (the final `halt` never continues)
  have hlt : s.pc < body.length := by
    rcases Nat.lt_or_ge s.pc body.length with h | h
    · exact h
    · have : s.pc = body.length := by omega
      rw [this, List.getElem?_append_right (Nat.le_refl _)] at hop
      simp at hop
      subst hop
      simp [exec1] at hs
  have hmem : op ∈ body := by
    rw [List.getElem?_append_left hlt] at hop
    exact List.mem_of_getElem? hop
  have htg : ∀ t ∈ opTargets op, t < (body ++ [Op.halt]).length := by
    intro t ht
    have := hT op hmem t ht
    omega
  obtain ⟨h1, h2⟩ := exec1_next_shape sem op s s' hs
  refine ⟨?_, ?_⟩
  · rcases h1 with h1 | h1
    · rw [h1]; omega
    · exact htg _ h1
  · intro t ht
    rcases h2 with h2 | ⟨t', ht', h2⟩ | h2
    · rw [h2] at ht; exact hhs t ht
    · rw [h2] at ht
      rcases List.mem_cons.mp ht with rfl | ht
      · exact htg _ ht'
      · exact hhs t ht
    · rw [h2] at ht; exact hhs t (List.mem_of_mem_tail ht)

theorem exec1_throw_state (op : Op) (s s' : St V) (er : Err) (h : exec1 sem op s = .throw er s') : s' = s := by
  cases op <;> simp only [exec1] at h
  all_goals (try (split at h))
  all_goals (try (simp at h))
  all_goals (try (exact h.2.symm))

/-- one step of the VM with handler dispatch keeps the invariant -/
theorem stepH_inCode (body : List Op) (hT : TgtLe body body.length) (s s' : St V)
    (hin : InCode (body ++ [.halt]) s) (hs : stepH sem (body ++ [.halt]) s = .next s') :
    InCode (body ++ [.halt]) s' := by
  have hop : ∃ op, (body ++ [Op.halt])[s.pc]? = some op := by
    exact ⟨_, List.getElem?_eq_getElem hin.1⟩
  obtain ⟨op, hop⟩ := hop
  simp only [stepH, step, hop] at hs
  cases he : exec1 sem op s with
  | next t =>
    simp only [he, Out.next.injEq] at hs
    subst hs
    exact exec1_inCode sem body hT s t op hin hop he
  | halt t => simp [he] at hs
  | fault => simp [he] at hs
  | throw er t =>
    have := exec1_throw_state sem op s t er he
    subst this
    simp only [he] at hs
    split at hs
    · rename_i tgt rest hhs
      simp only [Out.next.injEq] at hs
      subst hs
      refine ⟨hin.2 tgt (by rw [hhs]; exact List.mem_cons_self), ?_⟩
      intro t' ht'
      exact hin.2 t' (by rw [hhs]; exact List.mem_cons_of_mem _ ht')
    · simp at hs

/-- a state inside the code never faults, however long it runs -/
theorem run_never_faults (body : List Op) (hT : TgtLe body body.length) :
    ∀ (k : Nat) (s : St V), InCode (body ++ [.halt]) s → run sem (body ++ [.halt]) k s ≠ some .fault
  | 0, s, _ => by simp [run]
  | k + 1, s, hin => by
    have hop : ∃ op, (body ++ [Op.halt])[s.pc]? = some op := ⟨_, List.getElem?_eq_getElem hin.1⟩
    obtain ⟨op, hop⟩ := hop
    simp only [run]
    cases hst : stepH sem (body ++ [.halt]) s with
    | next t =>
      simp only []
      exact run_never_faults body hT k t (stepH_inCode sem body hT s t hin hst)
    | halt t => simp
    | throw er t => simp
    | fault =>
      -- impossible: there is an instruction at `pc`, and no instruction faults
      exfalso
      simp only [stepH, step, hop] at hst
      cases he : exec1 sem op s with
      | next t => simp [he] at hst
      | halt t => simp [he] at hst
      | throw er t =>
        simp only [he] at hst
        split at hst <;> simp at hst
      | fault =>
        cases op <;> simp only [exec1] at he
        all_goals (try (split at he))
        all_goals (try (simp at he))

/-- **the VM never runs off the code**: whatever statement was compiled, whatever the initial
    registers and environment, however many instructions are executed - also when the program never
    terminates - no run of the compiled program ends in a fault -/
theorem compiled_never_faults (s : Stmt) (code : List Op) (hc : compileProgram s = some code)
    (regs : Reg → V) (env : Env V) (k : Nat) : run sem code k ⟨0, regs, env, []⟩ ≠ some .fault := by
  rw [compileProgram_eq] at hc
  cases hb : codeS s 0 0 with
  | none => simp [hb] at hc
  | some body =>
    simp only [hb, Option.map_some, Option.some.injEq] at hc
    subst hc
    have hT := codeS_targets s 0 0 body hb
    simp only [Nat.zero_add] at hT
    exact run_never_faults sem body hT k _ ⟨by simp, by simp⟩

end
end TsrunVerif.Compile
