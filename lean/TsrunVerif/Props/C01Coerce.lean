import TsrunVerif.Model.Coerce

/-!
# C01 (operators over objects) — property theorems over M-Coerce

"all operator x operand-type combinations": what happens when an operand is an object is decided by
ToPrimitive; the theorems hold for every behaviour of `valueOf` / `toString` / `[Symbol.toPrimitive]`.
-/
namespace TsrunVerif.Coerce
open TsrunVerif.Ops

/-- `[Symbol.toPrimitive]`, when present, is the only method called -/
theorem toPrim_exclusive (h : Hint) (o : ObjB) (hp : o.toPrim ≠ .absent) :
    (toPrimitive h (.obj o)).2 = [(o.name, 'p')] := by
  unfold toPrimitive
  cases hb : o.toPrim <;> simp_all

/-- hint string asks `toString` first, the other hints ask `valueOf` first -/
theorem string_hint_toString_first (o : ObjB) (hp : o.toPrim = .absent) (hs : o.toString ≠ .absent) :
    (toPrimitive .string (.obj o)).2.head? = some (o.name, 's') := by
  unfold toPrimitive
  simp only [hp, if_true, ordinary]
  cases hb : o.toString <;> simp_all [ordinary]
  all_goals (cases o.valueOf <;> simp [ordinary])

theorem number_hint_valueOf_first (h : Hint) (hh : h ≠ .string) (o : ObjB) (hp : o.toPrim = .absent) (hv : o.valueOf ≠ .absent) :
    (toPrimitive h (.obj o)).2.head? = some (o.name, 'v') := by
  unfold toPrimitive
  simp only [hp, hh, if_false, ordinary]
  cases hb : o.valueOf <;> simp_all [ordinary]
  all_goals (cases o.toString <;> simp [ordinary])

/-- the second method is not called when the first one returns a primitive -/
theorem first_primitive_suffices (h : Hint) (hh : h ≠ .string) (o : ObjB) (hp : o.toPrim = .absent) (v : V)
    (hv : o.valueOf = .ret v) : toPrimitive h (.obj o) = (.ok v, [(o.name, 'v')]) := by
  unfold toPrimitive
  simp [hp, hh, hv, ordinary]

/-- each method is called at most once: the log has at most two entries and they differ -/
theorem calls_at_most_once (h : Hint) (x : Operand) : (toPrimitive h x).2.length ≤ 2 ∧ (toPrimitive h x).2.Nodup := by
  cases x with
  | prim v => simp [toPrimitive]
  | obj o =>
    unfold toPrimitive
    cases hp : o.toPrim with
    | ret v => simp [hp]
    | retObj => simp [hp]
    | throws t => simp [hp]
    | absent =>
      by_cases hh : h = .string
      · simp only [hp, hh, if_true]
        cases hv : o.valueOf <;> cases hs : o.toString <;> simp [ordinary]
      · simp only [hp, hh, if_false]
        cases hv : o.valueOf <;> cases hs : o.toString <;> simp [ordinary]

/-- no primitive can be obtained: TypeError (never an object as the result) -/
theorem no_primitive_typeError (h : Hint) (o : ObjB) (hp : o.toPrim = .absent)
    (hv : o.valueOf = .retObj ∨ o.valueOf = .absent) (hs : o.toString = .retObj ∨ o.toString = .absent) :
    (toPrimitive h (.obj o)).1 = .typeError := by
  unfold toPrimitive
  simp only [hp]
  split <;> (rcases hv with hv | hv <;> rcases hs with hs | hs <;> simp [hv, hs, ordinary])

/-- operands are converted LEFT first, and the right one is not touched when the left one fails -/
theorem both_left_first (h : Hint) (a b : Operand) :
    ∃ lb, (both h a b).2 = (toPrimitive h a).2 ++ lb ∧
      ((∀ x, (toPrimitive h a).1 ≠ .ok x) → lb = []) := by
  unfold both
  cases ha : toPrimitive h a with
  | mk ra la =>
    cases ra with
    | ok x =>
      cases hb : toPrimitive h b with
      | mk rb lb =>
        cases rb <;> exact ⟨lb, by simp, fun hne => absurd rfl (hne x)⟩
    | typeError => exact ⟨[], by simp, fun _ => rfl⟩
    | thrown t => exact ⟨[], by simp, fun _ => rfl⟩

/-- `===` / `!==` never call user code -/
theorem strict_never_converts (a b : Operand) : (binary "===" a b).2 = [] ∧ (binary "!==" a b).2 = [] := by
  constructor <;> (unfold binary; cases a <;> cases b <;> simp)

/-- an object is never loosely equal to null / undefined, and is not converted to find that out -/
theorem nullish_eq_no_convert (o : ObjB) (y : V) (hy : y = .undef ∨ y = .null) :
    binary "==" (.obj o) (.prim y) = (.ok (.bool false), []) ∧ binary "==" (.prim y) (.obj o) = (.ok (.bool false), []) := by
  rcases hy with rfl | rfl <;> (constructor <;> simp [binary])

/-- primitives pass through unchanged: on primitive operands the operators are exactly M-Ops -/
theorem prim_passthrough (op : String) (x y : V) (r : V) (h : binop op x y = some r) :
    binary op (.prim x) (.prim y) = (.ok r, []) := by
  unfold binary
  by_cases h1 : op = "===" ∨ op = "!=="
  · simp [h1, h]
  · by_cases h2 : op = "==" ∨ op = "!="
    · simp [h1, h2, h]
    · simp [h1, h2, both, toPrimitive, h]

-- non-vacuity: the familiar cases
example : binary "+" (.obj ⟨1, .ret (.num (.int 5)), .ret (.str "s"), .absent⟩) (.prim (.str "x")) = (.ok (.str "5x"), [(1, 'v')]) := by decide
example : unary "String" (.obj ⟨1, .ret (.num (.int 5)), .ret (.str "s"), .absent⟩) = (.ok (.str "s"), [(1, 's')]) := by decide
example : binary "<" (.obj ⟨1, .retObj, .ret (.str "10"), .absent⟩) (.obj ⟨2, .throws 7, .absent, .absent⟩) = (.thrown 7, [(1, 'v'), (1, 's'), (2, 'v')]) := by decide
example : (binary "==" (.obj ⟨1, .ret (.num (.int 1)), .absent, .absent⟩) (.prim (.bool true))).1 = .ok (.bool true) := by decide

end TsrunVerif.Coerce
