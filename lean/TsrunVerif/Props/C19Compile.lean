import TsrunVerif.Props.C19
import TsrunVerif.Props.C01Compile

/-!
# C19 over M-Compile: every stepping schedule of a compiled program agrees with running it at once,
and with the reference semantics

`Props/C19.lean` proves the schedule independence for an arbitrary deterministic step function; here
the step function is the VM of M-Compile (`stepH`, with the try stack), the program is any statement
of the modelled core, and the result is the one the reference semantics prescribes.
-/
namespace TsrunVerif.Compile
open TsrunVerif.Run

section
variable {V Err : Type} (sem : Sem V Err)

/-- the VM of M-Compile as a `step` in the sense of M-Run -/
def vmStep (code : List Op) (s : St V) : Sum (St V) (Out V Err) :=
  match stepH sem code s with
  | .next s' => .inl s'
  | o => .inr o

theorem run_eq_advance (code : List Op) : ∀ (k : Nat) (s : St V),
    run sem code k s = match advance (vmStep sem code) k s with
      | .inl _ => none
      | .inr o => some o
  | 0, s => by simp [run, advance]
  | k + 1, s => by
    simp only [run, advance, vmStep]
    cases h : stepH sem code s with
    | next s' => simp only []; exact run_eq_advance code k s'
    | halt t => rfl
    | throw e t => rfl
    | fault => rfl

/-- **any schedule, one result**: driving the compiled program in any chunks (one instruction per
    `step()` call included, with arbitrary pauses) is running it for the total number of instructions -/
theorem compiled_chunks_agree (code : List Op) (chunks : List Nat) (s : St V) :
    driveChunks (vmStep sem code) chunks s = advance (vmStep sem code) chunks.sum s :=
  run_eq_steps _ chunks s

/-- **and that result is the reference semantics'**: a program whose evaluation completes with
    environment `env'` halts with `env'` under EVERY schedule that grants it enough instructions -/
theorem completes_under_every_schedule (s : Stmt) (code : List Op) (hc : compileProgram s = some code)
    (fuel : Nat) (env env' : Env V) (u : Unit) (h : evalS sem fuel s env = some (.ok u env')) (regs : Reg → V) :
    ∃ K regs', ∀ chunks : List Nat, K ≤ chunks.sum →
      driveChunks (vmStep sem code) chunks ⟨0, regs, env, []⟩ = .inr (.halt ⟨code.length - 1, regs', env', []⟩) := by
  obtain ⟨k, regs', hk⟩ := program_completes sem s code hc fuel env env' u h regs
  refine ⟨k, regs', fun chunks hle => ?_⟩
  rw [compiled_chunks_agree]
  rw [run_eq_advance] at hk
  have hadv : advance (vmStep sem code) k ⟨0, regs, env, []⟩ = .inr (.halt ⟨code.length - 1, regs', env', []⟩) := by
    cases ha : advance (vmStep sem code) k ⟨0, regs, env, []⟩ with
    | inl t => simp [ha] at hk
    | inr o => simp [ha] at hk; rw [hk]
  obtain ⟨m, hm⟩ : ∃ m, chunks.sum = k + m := ⟨chunks.sum - k, by omega⟩
  rw [hm]
  exact terminal_stable _ k m _ _ hadv

/-- the same for a program that ends with an uncaught error -/
theorem throws_under_every_schedule (s : Stmt) (code : List Op) (hc : compileProgram s = some code)
    (fuel : Nat) (env env' : Env V) (er : Err) (h : evalS sem fuel s env = some (.thrown er env')) (regs : Reg → V) :
    ∃ K pc regs', ∀ chunks : List Nat, K ≤ chunks.sum →
      driveChunks (vmStep sem code) chunks ⟨0, regs, env, []⟩ = .inr (.throw er ⟨pc, regs', env', []⟩) := by
  obtain ⟨k, pc, regs', hk⟩ := program_throws sem s code hc fuel env env' er h regs
  refine ⟨k, pc, regs', fun chunks hle => ?_⟩
  rw [compiled_chunks_agree]
  rw [run_eq_advance] at hk
  have hadv : advance (vmStep sem code) k ⟨0, regs, env, []⟩ = .inr (.throw er ⟨pc, regs', env', []⟩) := by
    cases ha : advance (vmStep sem code) k ⟨0, regs, env, []⟩ with
    | inl t => simp [ha] at hk
    | inr o => simp [ha] at hk; rw [hk]
  obtain ⟨m, hm⟩ : ∃ m, chunks.sum = k + m := ⟨chunks.sum - k, by omega⟩
  rw [hm]
  exact terminal_stable _ k m _ _ hadv

end

-- non-vacuity: `sumSquares` (a loop) stepped 1 + 3 + 0 + 500 instructions
example : (match (codeS sumSquares 0 0).map (fun code =>
      driveChunks (vmStep intSem (code ++ [.halt])) [1, 3, 0, 500] ⟨0, fun _ => 0, [("i", 0), ("s", 0)], []⟩) with
    | some (.inr (.halt s)) => s.env | _ => []) = [("i", 5), ("s", 30)] := by decide

end TsrunVerif.Compile
