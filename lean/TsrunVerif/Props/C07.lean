import TsrunVerif.Model.Susp
import TsrunVerif.Lemmas.VmFieldsAllow
/-!
C07 — suspending and resuming is transparent to the program.
Property theorems over M-Susp (`Model/Susp.lean`).
-/
namespace TsrunVerif.Susp

theorem restoreCaller_saveCaller (c : Caller) : restoreCaller (saveCaller c) = c := by
  cases c with
  | mk f r e n a => cases f; rfl

/-- **Everything survives the round trip**: for every VM state - any registers, `this`, open
block scopes, try stack, exception being handled, completion pending behind a finally block, call
chain of suspended callers, environment - restoring the saved state gives the state back,
whatever the host's own `this`/environment defaults are. -/
theorem restore_save (g : Int) (e : Nat) (v : Vm) : restore g e (save v) = v := by
  cases v with
  | mk top callers env =>
    cases top
    simp only [restore, save, Option.getD_some, List.map_map]
    congr 1
    induction callers with
    | nil => rfl
    | cons c cs ih => simp only [List.map_cons, Function.comp_apply, restoreCaller_saveCaller]; congr 1

/-- **Transparency.** For every program (any continuation function `next`), every sequence of
awaited values and every choice, await by await, of whether the value was available at once or
arrived after a suspension to the host: the outcome is the one of the run that never suspends. -/
theorem run_mode_independent {Outcome : Type} (next : Next Outcome) (g : Int) (e : Nat) :
    ∀ (vals : List Int) (v : Vm) (modes : List Bool),
      runWith next g e v vals modes = runWith next g e v vals [] := by
  intro vals
  induction vals with
  | nil => intro v modes; rfl
  | cons x xs ih =>
    intro v modes
    simp only [runWith, restore_save, ite_self, List.headD_nil, Bool.false_eq_true, ↓reduceIte, List.tail_nil]
    cases next v x with
    | inr out => rfl
    | inl v' => simp only; rw [ih v' modes.tail, ih v' []]

/-- two schedules that differ only in when values arrive give the same outcome -/
theorem run_schedules_agree {Outcome : Type} (next : Next Outcome) (g : Int) (e : Nat)
    (vals : List Int) (v : Vm) (m₁ m₂ : List Bool) :
    runWith next g e v vals m₁ = runWith next g e v vals m₂ := by
  rw [run_mode_independent next g e vals v m₁, run_mode_independent next g e vals v m₂]

/-- the host's own defaults are irrelevant once the state carries `this` and the environment -/
theorem run_host_independent {Outcome : Type} (next : Next Outcome) (g₁ g₂ : Int) (e₁ e₂ : Nat) :
    ∀ (vals : List Int) (v : Vm) (modes : List Bool),
      runWith next g₁ e₁ v vals modes = runWith next g₂ e₂ v vals modes := by
  intro vals
  induction vals with
  | nil => intro v modes; rfl
  | cons x xs ih =>
    intro v modes
    simp only [runWith, restore_save, ite_self]
    cases next v x with
    | inr out => rfl
    | inl v' => simp only; exact ih v' modes.tail

/-- **The pre-repair save was not transparent**: a state in a method (`this` ≠ global) with a
return pending behind a finally block does not survive it. -/
theorem lossy_not_roundtrip :
    ∃ v : Vm, restore 0 0 (saveLossy v) ≠ v := by
  refine ⟨{ top := { ip := 7, chunk := 0, registers := [1], thisValue := 5, callStack := [], tryStack := [3],
                     exception := none, savedEnvStack := [2], arguments := [], newTarget := 0,
                     currentConstructor := none, pending := some (.ret 1) },
            callers := [], env := 4 }, ?_⟩
  decide

/-- **Independent host promises.** What a program reads from independently settled promises does
not depend on the order in which the host settled them. -/
theorem lookup_perm {l₁ l₂ : List (Nat × Int)} (h : l₁.Perm l₂) (nd : (l₁.map Prod.fst).Nodup) (i : Nat) :
    lookup l₁ i = lookup l₂ i := by
  induction h with
  | nil => rfl
  | cons x _ ih =>
    obtain ⟨k, v⟩ := x
    simp only [List.map_cons, List.nodup_cons] at nd
    simp only [lookup, ih nd.2]
  | swap x y l =>
    obtain ⟨k₁, v₁⟩ := x
    obtain ⟨k₂, v₂⟩ := y
    simp only [List.map_cons, List.nodup_cons, List.mem_cons, not_or] at nd
    simp only [lookup]
    by_cases h1 : k₁ = i
    · by_cases h2 : k₂ = i
      · exact absurd (h2.trans h1.symm) nd.1.1
      · simp [h1, h2]
    · simp [h1]
  | trans h₁ _ ih₁ ih₂ =>
    rw [ih₁ nd, ih₂ ((h₁.map Prod.fst).nodup_iff.mp nd)]

/-- every field of the VM and of its suspended frames is saved or is on the reviewed list of
transient fields (`Gen/VmFields.lean` is regenerated from the Rust structs on every run). -/
theorem fields_saved : TsrunVerif.Gen.vmFieldsCovered = true ∧ TsrunVerif.Gen.frameFieldsCovered = true := by decide

/-- every field of a saved frame comes from the field of the same name of THAT frame, every field of the saved VM
from the running VM, and back (regenerated from `save_state` / `from_saved_state` on every run): the Rust code
implements `saveCaller` / `restoreCaller` / `save` / `restore` of the model, field by field. -/
theorem fields_faithful : TsrunVerif.Gen.saveFrameFaithful = true ∧ TsrunVerif.Gen.saveVmFaithful = true ∧
    TsrunVerif.Gen.restoreFrameFaithful = true ∧ TsrunVerif.Gen.restoreVmFaithful = true ∧
    TsrunVerif.Gen.literalsComplete = true := by decide

-- non-vacuity: a suspended run through a state with every feature set
def sampleVm : Vm :=
  { top := { ip := 7, chunk := 1, registers := [1, 2], thisValue := 5, callStack := [9], tryStack := [3], «exception» := some 8,
             savedEnvStack := [2, 6], arguments := [4], newTarget := 1, currentConstructor := some 2, pending := some (.thr 1) },
    callers := [default], env := 4 }
example : restore 0 0 (save sampleVm) = sampleVm := by decide
example : restore 0 0 (saveLossy sampleVm) ≠ sampleVm := by decide

end TsrunVerif.Susp
