import TsrunVerif.Lemmas.Emit
/-!
C04 — TypeScript's run-time constructs behave as their standard JavaScript emit.
Property theorems over M-Emit (`Model/Emit.lean`).
-/
namespace TsrunVerif.Emit

/-- **Enums.** For every well-formed member list (any mix of auto-numbered, initialised and
computed/string members, duplicate values, duplicate names) and every object the declaration
starts from (the empty object, or - merged declarations - what earlier declarations of the same
enum built), tsrun's lowering builds exactly the object the TypeScript emit builds. -/
theorem lower_eq_emit (ms : List Member) (o : Obj) (h : WellFormed ms) :
    lower ms o = emit ms o := by
  unfold lower emit
  exact lower_emit_gen ms none o none none ⟨rfl, rfl⟩ h

/-- the members as tsc evaluates them -/
def values (ms : List Member) : List (String × EVal) := vals none ms

/-- **Forward mapping, merging.** `E.X` is the value of the last member named `X`; a name the
declaration does not mention keeps what the earlier declarations gave it. -/
theorem forward_lookup (ms : List Member) (o : Obj) (x : String) :
    (emit ms o).get (.name x) =
      match lastWith (fun p => decide (p.1 = x)) (values ms) with
      | some p => some p.2
      | none => o.get (.name x) := by
  unfold emit values
  rw [emit_fold_vals]
  exact writeAll_get_name _ o x

/-- **Reverse mapping, last writer wins.** `E[n]` is the name of the *last* member whose value is
the number `n` (auto-numbered, initialised or computed alike); string members have no reverse
entry; a number no member has keeps the earlier declarations' entry. -/
theorem reverse_last_writer (ms : List Member) (o : Obj) (n : Int) :
    (emit ms o).get (.idx n) =
      match lastWith (fun p => decide (p.2 = .num n)) (values ms) with
      | some p => some (.str p.1)
      | none => o.get (.idx n) := by
  unfold emit values
  rw [emit_fold_vals]
  exact writeAll_get_idx _ o n

/-- **Auto-increment.** a member without initialiser directly after a member with numeric value
`n` has value `n + 1`, whatever kind of initialiser that member had. -/
theorem auto_increment (pre : List Member) (a b : String) (n : Int) (post : List Member) (o : Obj)
    (hb : ∀ m ∈ post, m.name ≠ b) :
    (emit (pre ++ [⟨a, .val (.num n)⟩, ⟨b, .auto⟩] ++ post) o).get (.name b) = some (.num (n + 1)) := by
  rw [forward_lookup]
  have hv : ∀ (pre : List Member) (prev : Option Int),
      lastWith (fun p => decide (p.1 = b)) (vals prev (pre ++ [⟨a, .val (.num n)⟩, ⟨b, .auto⟩] ++ post))
        = some (b, .num (n + 1)) := by
    intro pre
    induction pre with
    | nil =>
      intro prev
      have hpost : ∀ (post : List Member) (pv : Option Int), (∀ m ∈ post, m.name ≠ b) →
          lastWith (fun p => decide (p.1 = b)) (vals pv post) = none := by
        intro post
        induction post with
        | nil => intro pv _; rfl
        | cons m ms ih =>
          intro pv hm
          simp only [vals, lastWith]
          rw [ih _ (fun m' hm' => hm m' (List.mem_cons_of_mem _ hm'))]
          have : m.name ≠ b := hm m List.mem_cons_self
          simp [this]
      simp only [List.nil_append, List.cons_append, vals, lastWith]
      rw [hpost post _ hb]
      simp
    | cons m ms ih =>
      intro prev
      simp only [List.cons_append, vals, lastWith]
      rw [ih]
  unfold values
  rw [hv pre none]

/-- **Namespaces.** For every body of a namespace block, every namespace object it starts from and
every set of members exported by earlier blocks, tsrun's alias bindings compute the namespace
object the emit (exported variables are properties `N.x`) computes. -/
theorem ns_block_alias_eq_emit (obj : Ns.Store) (exported : List String) (body : List Ns.Stmt) :
    (Ns.blockAlias obj exported body).obj = (Ns.blockEmit obj exported body).obj :=
  (Ns.body_sim body _ _ (Ns.sim_init obj exported)).1

/-- … and so for every sequence of merged blocks. -/
theorem ns_merged_alias_eq_emit (blocks : List (List Ns.Stmt)) :
    Ns.runAlias blocks = Ns.runEmit blocks := by
  unfold Ns.runAlias Ns.runEmit
  suffices h : ∀ (acc : Ns.Store × List String),
      blocks.foldl (fun (acc : Ns.Store × List String) b =>
        ((Ns.blockAlias acc.1 acc.2 b).obj, acc.2 ++ Ns.exportsOf b)) acc =
      blocks.foldl (fun (acc : Ns.Store × List String) b =>
        ((Ns.blockEmit acc.1 acc.2 b).obj, acc.2 ++ Ns.exportsOf b)) acc from h _
  induction blocks with
  | nil => intro acc; rfl
  | cons b bs ih =>
    intro acc
    simp only [List.foldl_cons, ns_block_alias_eq_emit]
    try exact ih _

/-- an exported variable is live: what a later statement of the body (or a function of the
namespace, which evaluates in the same scope) reads through the bare name is the property. -/
theorem ns_export_is_property (s : Ns.AliasSt) (x : String) (e : Ns.Expr) :
    Ns.evalAlias (Ns.stepAlias s (.exportVar x e)) (.var x) =
      ((Ns.stepAlias s (.exportVar x e)).obj.get x).getD 0 := by
  simp [Ns.stepAlias, Ns.evalAlias, Ns.lookupB]

/-- **Parameter properties.** After the constructor prologue `this.x` holds the argument of the
last parameter property named `x`; every other property is what it was. -/
theorem ctor_param_properties (this props : List (String × Int)) (x : String) :
    Ns.Store.get (ctorPrologue this props) x =
      match (props.reverse.find? (fun p => decide (p.1 = x))) with
      | some p => some p.2
      | none => Ns.Store.get this x :=
  Ns.store_props props this x

-- non-vacuity: a well-formed declaration with every member kind, duplicate values and a merge
example : WellFormed [⟨"A", .auto⟩, ⟨"B", .val (.num 6)⟩, ⟨"C", .auto⟩, ⟨"S", .val (.str "s")⟩,
    ⟨"D", .val (.num 6)⟩, ⟨"E", .auto⟩] := by unfold WellFormed; decide
example : (emit [⟨"B", .val (.num 6)⟩, ⟨"D", .val (.num 6)⟩, ⟨"E", .auto⟩] [(.name "A", .num 0), (.idx 0, .str "A")]).get (.idx 6)
    = some (.str "D") := by decide
example : (emit [⟨"B", .val (.num 6)⟩, ⟨"D", .val (.num 6)⟩, ⟨"E", .auto⟩] [(.name "A", .num 0), (.idx 0, .str "A")]).get (.name "E")
    = some (.num 7) := by decide
example : (Ns.runAlias [[.exportVar "x" (.lit 1), .localVar "h" (.lit 5), .assign "x" (.add (.var "x") (.var "h"))],
    [.exportVar "y" (.add (.var "x") (.lit 1))]]).1 = [("x", 6), ("y", 7)] := by decide

end TsrunVerif.Emit
