import TsrunVerif.Model.Orders

/-!
# C08 — the order protocol is exact (ledger part)

For every event sequence (any interleaving of script-side and promise-side events with
reports): ids are fresh and strictly increasing, no order is ever reported twice, every order
that is still un-cancelled is reported at the next report, and every cancellation reaches the
host exactly once.
-/
namespace TsrunVerif.Orders

/-- everything in `pending` is below `nextId` and `pending` is strictly increasing. -/
def Inv (l : Ledger) : Prop := l.pending.Pairwise (· < ·) ∧ ∀ i ∈ l.pending, i < l.nextId

theorem inv_init : Inv Ledger.init := by simp [Inv, Ledger.init]

theorem inv_step (l : Ledger) (e : Ev) (h : Inv l) : Inv (step l e).1 := by
  obtain ⟨h1, h2⟩ := h
  cases e with
  | issue =>
    simp only [step]
    refine ⟨List.pairwise_append.mpr ⟨h1, by simp, ?_⟩, ?_⟩
    · intro a ha b hb; simp at hb; subst hb; exact h2 a ha
    · intro i hi
      rcases List.mem_append.mp hi with h | h
      · have := h2 i h; simp; omega
      · simp at h; subst h; simp
  | getId => exact ⟨h1, fun i hi => by have := h2 i hi; simp [step]; omega⟩
  | cancel id =>
    exact ⟨List.Pairwise.sublist List.filter_sublist h1, fun i hi => h2 i (List.mem_filter.mp hi).1⟩
  | mark id => exact ⟨h1, h2⟩
  | report => simp [step, Inv]

theorem nextId_mono (l : Ledger) (e : Ev) : l.nextId ≤ (step l e).1.nextId := by
  cases e <;> simp [step]

/-- **fresh, increasing ids**: over any event sequence the ids reported to the host are
strictly increasing (every id is new and larger than all earlier ones) and each is either one
that was already waiting or one allocated later. -/
theorem reported_increasing (evs : List Ev) :
    ∀ l, Inv l → (reportedPending (reports l evs)).Pairwise (· < ·) ∧
      (∀ i ∈ reportedPending (reports l evs), i ∈ l.pending ∨ l.nextId ≤ i) := by
  induction evs with
  | nil => intro l _; simp [reports, reportedPending]
  | cons e t ih =>
    intro l hinv
    have hinv' := inv_step l e hinv
    obtain ⟨ih1, ih2⟩ := ih (step l e).1 hinv'
    have hmono := nextId_mono l e
    cases e with
    | report =>
      simp only [reports, step, optList, reportedPending, List.flatMap_append, List.flatMap_cons, List.flatMap_nil,
        List.append_nil] at ih1 ih2 ⊢
      constructor
      · apply List.pairwise_append.mpr
        refine ⟨hinv.1, ih1, ?_⟩
        intro a ha b hb
        rcases ih2 b hb with h | h
        · simp at h
        · have := hinv.2 a ha; omega
      · intro i hi
        rcases List.mem_append.mp hi with h | h
        · exact Or.inl h
        · rcases ih2 i h with h' | h'
          · simp at h'
          · exact Or.inr h'
    | issue =>
      simp only [reports, step, optList, List.nil_append] at ih1 ih2 ⊢
      refine ⟨ih1, ?_⟩
      intro i hi
      rcases ih2 i hi with h | h
      · rcases List.mem_append.mp h with h' | h'
        · exact Or.inl h'
        · simp at h'; exact Or.inr (by omega)
      · exact Or.inr (by omega)
    | getId =>
      simp only [reports, step, optList, List.nil_append] at ih1 ih2 ⊢
      refine ⟨ih1, ?_⟩
      intro i hi
      rcases ih2 i hi with h | h
      · exact Or.inl h
      · exact Or.inr (by omega)
    | cancel id =>
      simp only [reports, step, optList, List.nil_append] at ih1 ih2 ⊢
      refine ⟨ih1, ?_⟩
      intro i hi
      rcases ih2 i hi with h | h
      · exact Or.inl (List.mem_filter.mp h).1
      · exact Or.inr h
    | mark id =>
      simp only [reports, step, optList, List.nil_append] at ih1 ih2 ⊢
      exact ⟨ih1, ih2⟩

/-- **order_once**: from the initial ledger no id is ever handed to the host twice. -/
theorem order_once (evs : List Ev) : (reportedPending (reports Ledger.init evs)).Nodup := by
  have := (reported_increasing evs Ledger.init inv_init).1
  exact List.Pairwise.imp (fun h => Nat.ne_of_lt h) this

/-- an order that is issued and not cancelled is handed to the host by the *next* report,
together with everything else that was waiting (nothing is lost in between). -/
theorem issued_reported_next (quiet : List Ev) (hq : ∀ e ∈ quiet, e = .getId ∨ ∃ i, e = .mark i) :
    ∀ l : Ledger, ∃ c, reports l (quiet ++ [.report]) = [(l.pending, c)] := by
  induction quiet with
  | nil => intro l; exact ⟨l.cancelled, by simp [reports, step, optList]⟩
  | cons e t ih =>
    intro l
    rcases hq e (by simp) with h | ⟨i, h⟩
    · subst h
      obtain ⟨c, hc⟩ := ih (fun e he => hq e (by simp [he])) (step l .getId).1
      exact ⟨c, by simpa [reports, step, optList] using hc⟩
    · subst h
      obtain ⟨c, hc⟩ := ih (fun e he => hq e (by simp [he])) (step l (.mark i)).1
      exact ⟨c, by simpa [reports, step, optList] using hc⟩

theorem issue_then_report (l : Ledger) (quiet : List Ev) (hq : ∀ e ∈ quiet, e = .getId ∨ ∃ i, e = .mark i) :
    ∃ c, reports l (.issue :: quiet ++ [.report]) = [(l.pending ++ [l.nextId], c)] := by
  obtain ⟨c, hc⟩ := issued_reported_next quiet hq (step l .issue).1
  exact ⟨c, by simpa [reports, step, optList] using hc⟩

/-- **cancel_once**: every cancellation (explicit, rejected order promise, race loser) reaches
the host exactly once: the cancelled ids reported plus the ones still buffered are exactly the
buffered ones plus the cancellation events, in order. -/
theorem cancel_once (evs : List Ev) :
    ∀ l, reportedCancelled (reports l evs) ++ (final l evs).cancelled =
      l.cancelled ++ evs.filterMap (fun e => match e with | .cancel i => some i | .mark i => some i | _ => none) := by
  induction evs with
  | nil => intro l; simp [reports, final, reportedCancelled]
  | cons e t ih =>
    intro l
    have := ih (step l e).1
    cases e with
    | report =>
      simp only [reports, final, step, optList, reportedCancelled, List.flatMap_append, List.flatMap_cons, List.flatMap_nil,
        List.append_nil, List.filterMap_cons] at this ⊢
      rw [List.append_assoc, this]; simp
    | issue => simpa [reports, final, step, optList, List.filterMap_cons] using this
    | getId => simpa [reports, final, step, optList, List.filterMap_cons] using this
    | cancel i => simpa [reports, final, step, optList, List.filterMap_cons, List.append_assoc] using this
    | mark i => simpa [reports, final, step, optList, List.filterMap_cons, List.append_assoc] using this

/-- after a report nothing is buffered: a following report is empty (no duplicate delivery). -/
theorem report_drains (l : Ledger) : (step (step l .report).1 .report).2 = some ([], []) := by
  simp [step]

/-! ## non-vacuity -/
example : reports Ledger.init [.issue, .report, .issue, .getId, .issue, .cancel 2, .mark 1, .report, .report]
    = [([1], []), ([4], [2, 1]), ([], [])] := by decide

end TsrunVerif.Orders
