import TsrunVerif.Model.StepCost
import TsrunVerif.Gen.Reentrant
import TsrunVerif.Lemmas.ReentrantAllow

/-!
# C06 — the host keeps control
-/
namespace TsrunVerif.StepCost

/-- **step_unit**: a step that dispatches a trampolined instruction — every ordinary instruction,
every script-to-script call and return — executes exactly one instruction and does not touch
the native stack. -/
theorem step_unit (i : Instr) (h : isTrampolined i = true) : cost i = 1 ∧ nativeDepth i = 0 := by
  cases i <;> simp_all [isTrampolined, cost, nativeDepth]

/-- so in the trampolined fragment `k` steps execute exactly `k` instructions: a host that
counts steps counts work. -/
theorem steps_count_work (is : List Instr) (h : ∀ i ∈ is, isTrampolined i = true) :
    costList is = is.length ∧ nativeDepthList is = 0 := by
  induction is with
  | nil => simp [costList, nativeDepthList]
  | cons i t ih =>
    have hi := step_unit i (h i (by simp))
    have ht := ih (fun j hj => h j (by simp [hj]))
    simp [costList, nativeDepthList, hi.1, hi.2, ht.1, ht.2]; omega

/-- script call depth is carried by explicit frames only: any depth of trampolined calls needs
no native stack (`nativeDepthList = 0`), so it is limited by the host's budget alone. -/
theorem deep_script_calls_no_native_stack (n : Nat) :
    scriptDepth (List.replicate n .call) 0 = n ∧ nativeDepthList (List.replicate n .call) = 0 := by
  constructor
  · have : ∀ d, scriptDepth (List.replicate n .call) d = d + n := by
      induction n with
      | zero => intro d; simp [scriptDepth]
      | succ k ih => intro d; simp [List.replicate_succ, scriptDepth, ih]; omega
    simpa using this 0
  · exact (steps_count_work _ (by intro i hi; rw [List.eq_of_mem_replicate hi]; rfl)).2

/-- **step_bounded is false** for re-entrant natives (known finding, one site per native of
`Gen.reentrantNatives`): for every bound `B` there is a single instruction whose step executes
more than `B` instructions — a native whose callback loops. -/
theorem step_unbounded_with_reentrant_native : ∀ B : Nat, ∃ i : Instr, cost i > B := by
  intro B
  refine ⟨.native (List.replicate B .plain), ?_⟩
  have : costList (List.replicate B .plain) = B := by
    have := (steps_count_work (List.replicate B .plain) (by intro i hi; rw [List.eq_of_mem_replicate hi]; rfl)).1
    simpa using this
  simp [cost, this]

/-- native depth equals the nesting of re-entrant natives — unbounded by the grammar … -/
def nest : Nat → Instr
  | 0 => .plain
  | n + 1 => .native [nest n]

theorem native_depth_of_nest (n : Nat) : nativeDepth (nest n) = n := by
  induction n with
  | zero => rfl
  | succ k ih => simp [nest, nativeDepth, nativeDepthList, ih]; omega

/-- … which is why the guard exists: a re-entry is accepted only while the native stack used
stays within the budget, so accepted nesting never uses more than `budget` (+ one frame). -/
theorem guard_bounds_stack (budget used : Nat) (h : guardAccepts budget used = true) : used ≤ budget := by
  simpa [guardAccepts] using h

/-- **alloc_guarded**: an accepted dense-array length needs at most 2^27 element slots, an
accepted `repeat` at most 2^29 bytes — whatever number up to 2^53 (or beyond) the script asked for. -/
theorem alloc_guarded (n unitLen count : Nat) :
    (arrayLengthAccepted n = true → n ≤ 2 ^ 27) ∧ (repeatAccepted unitLen count = true → count * unitLen ≤ 2 ^ 29) := by
  unfold arrayLengthAccepted repeatAccepted maxArrayLength maxStringLength
  exact ⟨fun h => of_decide_eq_true h, fun h => of_decide_eq_true h⟩

theorem huge_refused : arrayLengthAccepted 4294967295 = false ∧ arrayLengthAccepted (2 ^ 53) = false ∧
    repeatAccepted 1 10000000000 = false := by decide

end TsrunVerif.StepCost

namespace TsrunVerif.Gen
/-- obligation over the generated inventory (re-extracted from /repo/src on every run): every
native that calls back into the interpreter is one of the reviewed, recorded sites. -/
theorem reentrant_allowed : reentrantNatives.all (fun x => allowedReentrant.contains x) = true := by decide
end TsrunVerif.Gen
