import TsrunVerif.Lemmas.CompileEq
import TsrunVerif.Lemmas.CompileStmt
import TsrunVerif.Lemmas.CompileNeed
import TsrunVerif.Lemmas.CompileRegs

/-!
# C01 (compiler and VM) — property theorems over M-Compile

For EVERY expression and statement of the modelled core (any size, any nesting, any loop count), any
value domain and operator semantics (`Sem`), any initial environment and register contents:

* the code the compiler emits (`compileE` / `compileS`, the line-by-line mirror of the Rust compiler
  with its register allocator and jump patching) is the structured code `codeE` / `codeS`;
* running that code on the register VM yields exactly what the reference semantics (`evalE` /
  `evalS`: ECMAScript's evaluation order) prescribes: the same value, the same environment after the
  same side effects, or the same thrown error after the same side effects;
* the temporaries of one construct never clobber a live register of an enclosing one.
-/
set_option linter.unusedVariables false

namespace TsrunVerif.Compile
open TsrunVerif.RegAlloc

section
variable {V Err : Type} (sem : Sem V Err)

/-- a halting instruction, or one that raises with no handler left, ends `run` -/
theorem run_of_steps {C : List Op} {s s' : St V} (h : StepsH sem C s s') (o : Out V Err)
    (ho : stepH sem C s' = o) (hn : ∀ t, o ≠ .next t) : ∃ k, run sem C k s = some o := by
  induction h with
  | refl s =>
    refine ⟨1, ?_⟩
    simp only [run]
    rw [ho]
    cases o with
    | next t => exact absurd rfl (hn t)
    | halt _ => rfl
    | throw _ _ => rfl
    | fault => rfl
  | cons hs _ ih =>
    obtain ⟨k, hk⟩ := ih ho
    exact ⟨k + 1, by simp only [run]; rw [hs]; exact hk⟩

/-- **the compiler emits the structured code** (statement level, from a fresh builder) -/
theorem compileProgram_eq (s : Stmt) :
    compileProgram s = (codeS s 0 0).map (· ++ [.halt]) := by
  have h := compileS_eq s { code := [], ra := RA.init } rfl
  simp only [compileProgram]
  rcases h with ⟨h1, h2⟩ | ⟨b', body, h1, h2, hr⟩
  · simp only [RA.init, List.length_nil] at h2
    simp [h1, h2]
  · simp only [RA.init, List.length_nil] at h2
    obtain ⟨c1, _⟩ := hr
    simp only [List.nil_append] at c1
    simp [h1, h2, c1]

/-- **expressions, on the compiler as written**: whatever was compiled before (`b`) and whatever is
    appended afterwards (`post`), the code `compileE e dst` added computes the value of `e` into `dst`,
    performs exactly `e`'s side effects, and leaves every other allocated register alone; if `e`
    throws, the VM throws the same error after the same side effects -/
theorem compileE_correct (e : Expr) (dst : Reg) (b b' : B) (hc : compileE e dst b = some b')
    (hf : b.ra.free = []) (hd : dst < b.ra.next) (post : List Op) :
    ExprOK sem (b'.code ++ post) b.code.length (b'.code.length - b.code.length) e dst b.ra.next := by
  rcases compileE_eq e dst b hf with ⟨h1, _⟩ | ⟨b1, body, h1, h2, hr⟩
  · rw [hc] at h1; cases h1
  · rw [hc] at h1
    cases h1
    obtain ⟨c1, _⟩ := hr
    rw [c1, List.length_append, Nat.add_sub_cancel_left]
    exact codeE_ok sem e dst b.ra.next b.code.length body h2 hd (b.code ++ body ++ post)
      (Embeds.self b.code body post)

/-- **the allocator is a stack**: a compiled expression gives back every register it took -/
theorem compileE_restores (e : Expr) (dst : Reg) (b b' : B) (hc : compileE e dst b = some b')
    (hf : b.ra.free = []) :
    b'.ra.next = b.ra.next ∧ b'.ra.free = [] ∧ b'.ra.saved = b.ra.saved ∧ b.ra.maxUsed ≤ b'.ra.maxUsed := by
  rcases compileE_eq e dst b hf with ⟨h1, _⟩ | ⟨b1, body, h1, h2, hr⟩
  · rw [hc] at h1; cases h1
  · rw [hc] at h1
    cases h1
    exact hr.2

/-- **a program that completes**: if the reference semantics finishes statement `s` (within any
    fuel) with environment `env'`, the compiled program halts with environment `env'` and an empty
    try stack -/
theorem program_completes (s : Stmt) (code : List Op) (hc : compileProgram s = some code)
    (fuel : Nat) (env env' : Env V) (u : Unit) (h : evalS sem fuel s env = some (.ok u env'))
    (regs : Reg → V) :
    ∃ k regs', run sem code k ⟨0, regs, env, []⟩ = some (.halt ⟨code.length - 1, regs', env', []⟩) := by
  rw [compileProgram_eq] at hc
  cases hb : codeS s 0 0 with
  | none => simp [hb] at hc
  | some body =>
    simp only [hb, Option.map_some, Option.some.injEq] at hc
    subst hc
    have emb : Embeds (body ++ [Op.halt]) 0 body := by
      have := Embeds.self [] body [Op.halt]
      simpa using this
    obtain ⟨regs', hs⟩ := (codeS_ok sem fuel s 0 0 body hb _ emb regs env []).1 u env' h
    simp only [Nat.zero_add] at hs
    obtain ⟨k, hk⟩ := run_of_steps sem hs (.halt ⟨body.length, regs', env', []⟩)
      (by simp [stepH, step, exec1]) (by intro t; simp)
    exact ⟨k, regs', by simpa using hk⟩

/-- **a program that throws**: if the reference semantics ends with an uncaught `er` and environment
    `env'` (the side effects made before the throw, and by the handlers that ran), the compiled
    program ends with the uncaught `er` and environment `env'` -/
theorem program_throws (s : Stmt) (code : List Op) (hc : compileProgram s = some code)
    (fuel : Nat) (env env' : Env V) (er : Err) (h : evalS sem fuel s env = some (.thrown er env'))
    (regs : Reg → V) :
    ∃ k pc regs', run sem code k ⟨0, regs, env, []⟩ = some (.throw er ⟨pc, regs', env', []⟩) := by
  rw [compileProgram_eq] at hc
  cases hb : codeS s 0 0 with
  | none => simp [hb] at hc
  | some body =>
    simp only [hb, Option.map_some, Option.some.injEq] at hc
    subst hc
    have emb : Embeds (body ++ [Op.halt]) 0 body := by
      have := Embeds.self [] body [Op.halt]
      simpa using this
    obtain ⟨pc, regs', hs, ht⟩ := (codeS_ok sem fuel s 0 0 body hb _ emb regs env []).2 er env' h
    obtain ⟨k, hk⟩ := run_of_steps sem hs (.throw er ⟨pc, regs', env', []⟩) (by simp [stepH, ht]) (by intro t; simp)
    exact ⟨k, pc, regs', hk⟩

/-- **`try { … } catch { }` lets nothing escape**: whatever the block does - any statements, any
    nesting, a throw at any depth of any expression - the statement completes normally, with the
    side effects made before the throw -/
theorem empty_catch_total (fuel : Nat) (body : List Stmt) (env : Env V) (r : Res V Err Unit)
    (h : evalS sem fuel (.tryCatch body []) env = some r) : ∃ u env', r = .ok u env' := by
  simp only [evalS] at h
  split at h
  · simp only [evalL, Option.some.injEq] at h
    exact ⟨(), _, h.symm⟩
  · rename_i hne
    cases r with
    | ok u env' => exact ⟨u, env', rfl⟩
    | thrown er env' => exact absurd h (by intro h'; exact hne _ _ h')

/-- the VM is deterministic in its fuel: more fuel never changes a result already reached -/
theorem run_mono {C : List Op} : ∀ (k : Nat) (s : St V) (o : Out V Err), run sem C k s = some o →
    ∀ j, run sem C (k + j) s = some o
  | 0, _, _, h, _ => by simp [run] at h
  | k + 1, s, o, h, j => by
    rw [show k + 1 + j = (k + j) + 1 by omega]
    cases hstep : stepH sem C s with
    | next s' =>
      simp only [run, hstep] at h ⊢
      exact run_mono k s' o h j
    | halt t => simp only [run, hstep] at h ⊢; exact h
    | throw e t => simp only [run, hstep] at h ⊢; exact h
    | fault => simp only [run, hstep] at h ⊢; exact h

/-- **the outcome is unique**: whatever fuel two runs of the same code from the same state use, they
    end in the same outcome -/
theorem run_unique {C : List Op} (s : St V) (k₁ k₂ : Nat) (o₁ o₂ : Out V Err)
    (h₁ : run sem C k₁ s = some o₁) (h₂ : run sem C k₂ s = some o₂) : o₁ = o₂ := by
  have a := run_mono sem k₁ s o₁ h₁ k₂
  have b := run_mono sem k₂ s o₂ h₂ k₁
  rw [Nat.add_comm] at b
  rw [a] at b
  exact Option.some.inj b

end

/-- **size either works or is refused, and the limit is the construct's own register demand**: a
    statement is refused exactly when it needs more than the 255 registers a `u8` names; what is
    accepted is compiled correctly whatever its size (`program_completes`, `program_throws`) -/
theorem program_refused_iff (s : Stmt) : compileProgram s = none ↔ 255 < needS s := by
  rw [compileProgram_eq]
  have := codeS_isSome_iff s 0 0 (by omega)
  cases h : codeS s 0 0 with
  | none => simp [h] at this ⊢; omega
  | some body => simp [h] at this ⊢; omega

/-- the limit of `b = a + (a + (a + …))`: 127 levels compile, 128 do not -/
theorem rightNested_limit (d : Nat) :
    compileProgram (.expr (.asg "b" .assign (rightNested d))) = none ↔ 128 ≤ d := by
  rw [program_refused_iff]
  simp only [needS, need, need_rightNested]
  omega

/-- the limit of `b = a + 1 + 1 + …`: 253 additions compile, 254 do not -/
theorem leftNested_limit (d : Nat) :
    compileProgram (.expr (.asg "b" .assign (leftNested d))) = none ↔ 254 ≤ d := by
  rw [program_refused_iff]
  simp only [needS, need, need_leftNested]
  split <;> omega

/-- **the register file is never indexed out of range**: every register an instruction of the
    compiled program names is below the program's register demand `needS s` (the chunk's
    `register_count`: the driver checks `max_used = needS` on every generated statement) -/
theorem program_registers_in_file (s : Stmt) (code : List Op) (hc : compileProgram s = some code) :
    ∀ op ∈ code, ∀ r ∈ opRegs op, r < needS s := by
  rw [compileProgram_eq] at hc
  cases hb : codeS s 0 0 with
  | none => simp [hb] at hc
  | some body =>
    simp only [hb, Option.map_some, Option.some.injEq] at hc
    subst hc
    intro op hop r hr
    rcases List.mem_append.mp hop with h | h
    · have := codeS_regs s 0 0 body hb op h r hr
      omega
    · simp only [List.mem_singleton] at h
      subst h
      simp [opRegs] at hr

section
variable {V Err : Type} (sem : Sem V Err)

/-- **the VM never runs off the code**: when the reference semantics of the program terminates
    (normally or by a throw), no run of the compiled program, whatever its fuel, ends in a fault -/
theorem program_no_fault (s : Stmt) (code : List Op) (hc : compileProgram s = some code)
    (fuel : Nat) (env : Env V) (r : Res V Err Unit) (h : evalS sem fuel s env = some r)
    (regs : Reg → V) (k : Nat) : run sem code k ⟨0, regs, env, []⟩ ≠ some .fault := by
  intro hf
  cases r with
  | ok u env' =>
    obtain ⟨k', regs', hk⟩ := program_completes sem s code hc fuel env env' u h regs
    have := run_unique sem _ k k' _ _ hf hk
    cases this
  | thrown er env' =>
    obtain ⟨k', pc, regs', hk⟩ := program_throws sem s code hc fuel env env' er h regs
    have := run_unique sem _ k k' _ _ hf hk
    cases this

end

/-! ### non-vacuity: concrete programs through the whole chain (arithmetic on `Int`) -/

def intSem : Sem Int String where
  lit := fun | .num z => z | .bool true => 1 | _ => 0
  truthy := fun v => v != 0
  nullish := fun _ => false
  un := fun op v => match op with | .neg => .ok (-v) | .not => .ok (if v = 0 then 1 else 0) | _ => .ok v
  bin := fun op a b => match op with
    | .add => .ok (a + b) | .sub => .ok (a - b) | .mul => .ok (a * b)
    | .lt => .ok (if a < b then 1 else 0)
    | .div => if b = 0 then .error "div0" else .ok (a / b)
    | _ => .ok 0
  refErr := fun x => "ReferenceError:" ++ x
  ofVal := fun v => "thrown:" ++ toString v

/-- `while (i < 5) { s += i * i; i++ }` -/
def sumSquares : Stmt :=
  .while_ (.bin .lt (.var "i") (.lit (.num 5)))
    (.block [.expr (.asg "s" (.bin .add) (.bin .mul (.var "i") (.var "i"))), .expr (.upd "i" true false)])

example : (codeS sumSquares 0 0).map List.length = some 20 := by decide
example : (match (codeS sumSquares 0 0).bind (fun code => run intSem (code ++ [.halt]) 200 ⟨0, fun _ => 0, [("i", 0), ("s", 0)], []⟩) with
    | some (.halt s) => s.env | _ => []) = [("i", 5), ("s", 30)] := by decide
/-- a throw in the middle keeps the earlier side effect: `(x = 7, 1 / 0)` -/
example : (match evalE intSem (.seq (.asg "x" .assign (.lit (.num 7))) (.bin .div (.lit (.num 1)) (.lit (.num 0)))) [("x", 0)] with
    | .thrown e env => (e, env) | _ => ("", [])) = ("div0", [("x", 7)]) := by decide
example : (match (codeE (.seq (.asg "x" .assign (.lit (.num 7))) (.bin .div (.lit (.num 1)) (.lit (.num 0)))) 0 1 0).bind
      (fun code => run intSem (code ++ [.halt]) 50 ⟨0, fun _ => 0, [("x", 0)], []⟩) with
    | some (.throw e s) => (e, s.env) | _ => ("", [])) = ("div0", [("x", 7)]) := by decide
/-- `try { x = 7; throw 1; x = 9 } catch { y = x }`: the handler runs, sees the side effect made before the throw -/
def tryDemo : Stmt :=
  .tryCatch [.expr (.asg "x" .assign (.lit (.num 7))), .throw_ (.lit (.num 1)), .expr (.asg "x" .assign (.lit (.num 9)))]
    [.expr (.asg "y" .assign (.var "x"))]

example : (match (codeS tryDemo 0 0).bind (fun code => run intSem (code ++ [.halt]) 100 ⟨0, fun _ => 0, [("x", 0), ("y", 0)], []⟩) with
    | some (.halt s) => (s.env, s.hs) | _ => ([], [0])) = ([("x", 7), ("y", 7)], []) := by decide

end TsrunVerif.Compile
