import TsrunVerif.Lemmas.Path

/-!
# C18 — Module specifiers resolve to canonical paths

Property theorems only (helper lemmas live in `Lemmas/Path.lean`).  Every theorem
quantifies over *all* specifier / importer strings (unbounded length, any
characters).  `Abs p` = "p starts with `/`", `Canonical p` = "p is `/` followed by
ordinary segments joined by single slashes" (ordinary: non-empty, not `.`, not
`..`, no `/` inside) — which is exactly: absolute, no empty/`.`/`..` segment, no
trailing slash (unless the path is `/`), not above the root.
-/
namespace TsrunVerif.Path

def Abs (p : List Char) : Prop := startsWithSlash p = true

/-- `/seg₁/seg₂/…/segₙ` with ordinary segments (n = 0 gives `/`). -/
def Canonical (p : List Char) : Prop :=
  ∃ l : List (List Char), p = '/' :: joinSlash l ∧ ∀ s ∈ l, Ordinary s

/-! ## bare specifiers pass through untouched -/
theorem resolve_bare (s : List Char) (b : Option (List Char)) (h : isBare s = true) :
    resolve s b = s := by
  simp [resolve, h]

/-! ## the result is "join to the importer's directory, then normalise" -/
theorem resolve_spec_relative (s b dir : List Char) (hrel : isRelative s = true)
    (hdir : parent b = some dir) :
    resolve s (some b) = normalize (dir ++ '/' :: s) := by
  have hb : isBare s = false := by simp [isBare, hrel]
  have hs : startsWithSlash s = false := by
    cases s with
    | nil => rfl
    | cons c cs =>
      simp only [isRelative, List.isPrefixOf, Bool.or_eq_true, Bool.and_eq_true, beq_iff_eq] at hrel
      have hc : c = '.' := by
        rcases hrel with h | h
        · exact h.1.symm
        · exact h.1.symm
      subst hc; rfl
  simp [resolve, hb, hs, hdir]

theorem resolve_spec_absolute (s : List Char) (b : Option (List Char)) (h : Abs s) :
    resolve s b = normalize s := by
  have hb : isBare s = false := by simp [isBare, Abs] at *; simp [h]
  simp [resolve, hb]; intro h'; simp [Abs, h'] at h

/-! ## absolute importer ⇒ canonical absolute result -/

theorem parent_abs (b : List Char) (hb : Abs b) :
    ∃ d, parent b = some d ∧ (d = [] ∨ Abs d) := by
  cases b with
  | nil => simp [Abs, startsWithSlash] at hb
  | cons c cs =>
    have hc : c = '/' := by
      simpa [Abs, startsWithSlash] using hb
    subst hc
    simp only [parent]
    cases parent cs with
    | none => exact ⟨[], by simp, Or.inl rfl⟩
    | some d => exact ⟨'/' :: d, by simp, Or.inr rfl⟩

theorem resolve_canonical (s b : List Char) (hb : Abs b) (hs : isBare s = false) :
    Canonical (resolve s (some b)) := by
  obtain ⟨d, hd, hdd⟩ := parent_abs b hb
  unfold resolve
  rw [if_neg (by simp [hs])]
  split
  · rename_i h; exact normalize_abs_shape s h
  · simp only [Option.bind_some, hd]
    apply normalize_abs_shape
    rcases hdd with h | h
    · subst h; rfl
    · exact startsWithSlash_append d _ h

/-- "the result of resolving against an absolute importer is absolute". -/
theorem resolve_abs (s b : List Char) (hb : Abs b) (hs : isBare s = false) :
    Abs (resolve s (some b)) := by
  obtain ⟨l, hl, _⟩ := resolve_canonical s b hb hs
  rw [hl]; rfl

/-- canonical paths have no trailing slash (except the root itself). -/
theorem canonical_no_trailing_slash (p : List Char) (h : Canonical p) :
    p = ['/'] ∨ p.getLast? ≠ some '/' := by
  obtain ⟨l, hp, hl⟩ := h
  subst hp
  cases l with
  | nil => left; rfl
  | cons s t =>
    right
    have key : ∀ (l : List (List Char)), l ≠ [] → (∀ s ∈ l, Ordinary s) →
        ∀ c, (joinSlash l).getLast? = some c → c ≠ '/' := by
      intro l
      induction l with
      | nil => intro h; exact absurd rfl h
      | cons s t ih =>
        intro _ hl c hc
        cases t with
        | nil =>
          simp only [joinSlash] at hc
          have hs := hl s (by simp)
          have hm : c ∈ s := List.mem_of_getLast? hc
          intro e; subst e; exact hs.2.2.2 hm
        | cons t r =>
          simp only [joinSlash] at hc
          have hne : joinSlash (t :: r) ≠ [] := by
            have ht := hl t (by simp)
            cases r with
            | nil => simpa [joinSlash] using ht.1
            | cons u v =>
              simp only [joinSlash]
              have := ht.1
              cases t with
              | nil => exact absurd rfl this
              | cons _ _ => simp
          have : (s ++ '/' :: joinSlash (t :: r)).getLast? = (joinSlash (t :: r)).getLast? := by
            rw [List.getLast?_append]
            cases hj : joinSlash (t :: r) with
            | nil => exact absurd hj hne
            | cons x xs =>
              cases hlast : (x :: xs).getLast? with
              | none => simp at hlast
              | some v => simp [List.getLast?_cons_cons, hlast]
          rw [this] at hc
          exact ih (by simp) (fun x hx => hl x (by simp [hx])) c hc
    intro hlast
    have hne : joinSlash (s :: t) ≠ [] := by
      have hs := hl s (by simp)
      cases t with
      | nil => simpa [joinSlash] using hs.1
      | cons u v =>
        simp only [joinSlash]
        cases s with
        | nil => exact absurd rfl hs.1
        | cons _ _ => simp
    have : ('/' :: joinSlash (s :: t)).getLast? = (joinSlash (s :: t)).getLast? := by
      cases hj : joinSlash (s :: t) with
      | nil => exact absurd hj hne
      | cons x xs => simp [List.getLast?_cons_cons]
    rw [this] at hlast
    exact key (s :: t) (by simp) hl '/' hlast rfl

/-! ## resolving again changes nothing -/
theorem resolve_idem (s b : List Char) (b' : Option (List Char)) (hb : Abs b)
    (hs : isBare s = false) :
    resolve (resolve s (some b)) b' = resolve s (some b) := by
  obtain ⟨l, hl, hord⟩ := resolve_canonical s b hb hs
  rw [hl, resolve_spec_absolute ('/' :: joinSlash l) b' (by unfold Abs; rfl)]
  exact normalize_canonical l hord

/-! ## equal spellings resolve equally -/

private theorem sws_mid (a m1 m2 : List Char) :
    startsWithSlash (a ++ '/' :: m1) = startsWithSlash (a ++ '/' :: m2) := by
  cases a with
  | nil => rfl
  | cons c cs => simp [startsWithSlash]

/-- inserting `/.` changes nothing. -/
theorem normalize_dot (a b : List Char) :
    normalize (a ++ '/' :: '.' :: '/' :: b) = normalize (a ++ '/' :: b) := by
  have h1 : splitSlash (a ++ '/' :: '.' :: '/' :: b) = splitSlash a ++ (['.'] :: splitSlash b) := by
    rw [splitSlash_append]
    congr 1
  have h2 : normSegs (splitSlash (a ++ '/' :: '.' :: '/' :: b))
      = normSegs (splitSlash (a ++ '/' :: b)) := by
    rw [h1, splitSlash_append]
    simp [normSegs, List.foldl_append, normStep]
  unfold normalize
  simp only [h2, sws_mid a ('.' :: '/' :: b) b]

/-- doubling a slash changes nothing. -/
theorem normalize_dblslash (a b : List Char) :
    normalize (a ++ '/' :: '/' :: b) = normalize (a ++ '/' :: b) := by
  have h2 : normSegs (splitSlash (a ++ '/' :: '/' :: b))
      = normSegs (splitSlash (a ++ '/' :: b)) := by
    rw [splitSlash_append, splitSlash_append]
    simp [normSegs, List.foldl_append, normStep, splitSlash]
  unfold normalize
  simp only [h2, sws_mid a ('/' :: b) b]

/-- `x/..` cancels for an ordinary segment `x`. -/
theorem normalize_dotdot (a x b : List Char) (hx : Ordinary x) :
    normalize (a ++ '/' :: (x ++ '/' :: '.' :: '.' :: '/' :: b)) = normalize (a ++ '/' :: b) := by
  have hdd : splitSlash ('.' :: '.' :: '/' :: b) = ['.', '.'] :: splitSlash b := by
    have := splitSlash_append ['.', '.'] b
    simpa [splitSlash] using this
  have h2 : normSegs (splitSlash (a ++ '/' :: (x ++ '/' :: '.' :: '.' :: '/' :: b)))
      = normSegs (splitSlash (a ++ '/' :: b)) := by
    rw [splitSlash_append, splitSlash_append, splitSlash_append, hdd,
      splitSlash_of_noSlash x hx.2.2.2]
    have hstep : ∀ acc, normStep (normStep acc x) ['.', '.'] = acc := by
      intro acc
      have : normStep acc x = acc ++ [x] := by
        unfold normStep
        rw [if_neg (by rintro (h | h); exact hx.1 h; exact hx.2.1 h), if_neg hx.2.2.1]
      rw [this]; simp [normStep]
    simp [normSegs, List.foldl_append, hstep]
  unfold normalize
  simp only [h2, sws_mid a (x ++ '/' :: '.' :: '.' :: '/' :: b) b]

private theorem isBare_mid (s1 m1 m2 : List Char)
    (h : ∀ r, isRelative ('/' :: r) = false) :
    isBare (s1 ++ '/' :: m1) = isBare (s1 ++ '/' :: m2) := by
  match s1 with
  | [] => simp [isBare, startsWithSlash, h]
  | [c1] =>
    simp [isBare, startsWithSlash, isRelative, List.isPrefixOf]
  | [c1, c2] =>
    simp [isBare, startsWithSlash, isRelative, List.isPrefixOf]
  | c1 :: c2 :: c3 :: r =>
    simp [isBare, startsWithSlash, isRelative, List.isPrefixOf]

private theorem sws_mid' (s1 m1 m2 : List Char) :
    startsWithSlash (s1 ++ '/' :: m1) = startsWithSlash (s1 ++ '/' :: m2) := sws_mid s1 m1 m2

/-- lifting a `normalize`-level respelling law to `resolve`. -/
private theorem resolve_respell (s1 m1 m2 : List Char) (b : Option (List Char))
    (hn : ∀ a, normalize (a ++ '/' :: m1) = normalize (a ++ '/' :: m2))
    (hnb : isBare (s1 ++ '/' :: m2) = false) :
    resolve (s1 ++ '/' :: m1) b = resolve (s1 ++ '/' :: m2) b := by
  have hbare := isBare_mid s1 m1 m2 (by intro r; rfl)
  unfold resolve
  rw [hbare, hnb, sws_mid' s1 m1 m2]
  simp only [Bool.false_eq_true, if_false]
  split
  · exact hn s1
  · cases base : b.bind parent with
    | none => simpa using hn s1
    | some dir =>
      simp only
      have := hn (dir ++ '/' :: s1)
      simpa [List.append_assoc] using this

/-- `a/./b` and `a/b` resolve to the same path. -/
theorem resolve_spelling_dot (s1 s2 : List Char) (b : Option (List Char))
    (hnb : isBare (s1 ++ '/' :: s2) = false) :
    resolve (s1 ++ '/' :: '.' :: '/' :: s2) b = resolve (s1 ++ '/' :: s2) b :=
  resolve_respell s1 _ _ b (fun a => normalize_dot a s2) hnb

/-- `a//b` and `a/b` resolve to the same path. -/
theorem resolve_spelling_dblslash (s1 s2 : List Char) (b : Option (List Char))
    (hnb : isBare (s1 ++ '/' :: s2) = false) :
    resolve (s1 ++ '/' :: '/' :: s2) b = resolve (s1 ++ '/' :: s2) b :=
  resolve_respell s1 _ _ b (fun a => normalize_dblslash a s2) hnb

/-- `a/x/../b` and `a/b` resolve to the same path (x an ordinary segment). -/
theorem resolve_spelling_dotdot (s1 x s2 : List Char) (b : Option (List Char))
    (hx : Ordinary x) (hnb : isBare (s1 ++ '/' :: s2) = false) :
    resolve (s1 ++ '/' :: (x ++ '/' :: '.' :: '.' :: '/' :: s2)) b = resolve (s1 ++ '/' :: s2) b :=
  resolve_respell s1 _ _ b (fun a => normalize_dotdot a x s2 hx) hnb

/-! ## the pre-fix code violated `resolve_abs` (witness: `./m.ts` from `/main.ts`) -/
theorem resolveOld_not_abs :
    ¬ (∀ s b, Abs b → isBare s = false → Abs (resolveOld s (some b))) := by
  intro h
  have := h "./m.ts".toList "/main.ts".toList rfl rfl
  unfold Abs at this
  revert this
  decide

/-! ## non-vacuity: the hypotheses are satisfiable and the results concrete -/
example : resolve "./utils.ts".toList (some "/src/app/main.ts".toList) = "/src/app/utils.ts".toList := by
  decide
example : resolve "./m.ts".toList (some "/main.ts".toList) = "/m.ts".toList := by decide
example : resolve "../../../x".toList (some "/a/b.ts".toList) = "/x".toList := by decide
example : Abs "/main.ts".toList ∧ isBare "./m.ts".toList = false := by unfold Abs; decide
example : Ordinary "a.ts".toList := by unfold Ordinary; decide

end TsrunVerif.Path
