import TsrunVerif.Model.Ops
import TsrunVerif.Model.Ctl
/-!
C01 — programs in the supported core evaluate as ECMAScript specifies.
Property theorems over M-Ops (operators and coercions on primitives) and M-Ctl (completion
records).  The models are transcriptions of the specification; the theorems are the laws the
specification implies for every operand / every program of the modelled fragment; the check runs
the models and the real interpreter (and the reference engine) on the same operands and programs.
-/
namespace TsrunVerif.Ops

theorem beq_num_comm (a b : Num) : (a == b) = (b == a) := by
  by_cases h : a = b
  · subst h; rfl
  · have h1 : (a == b) = false := by simp [h]
    have h2 : (b == a) = false := by simp [Ne.symm h]
    rw [h1, h2]

theorem numEq_symm (a b : Num) : numEq a b = numEq b a := by
  cases a <;> cases b <;> simp only [numEq, isZero, beq_num_comm, Bool.and_comm, Bool.false_and, Bool.and_false, Bool.false_or]
  all_goals first | rfl | (rw [beq_num_comm]) | skip

/-- `===` and `==` are symmetric for all primitive operands -/
theorem strictEq_symm (a b : V) : strictEq a b = strictEq b a := by
  cases a <;> cases b <;> simp [strictEq, numEq_symm, eq_comm, Bool.beq_comm]

theorem looseEq_symm (a b : V) : looseEq a b = looseEq b a := by
  cases a <;> cases b <;> simp [looseEq, strictEq, numEq_symm, eq_comm, Bool.beq_comm]

/-- `===` implies `==` -/
theorem looseEq_of_strictEq (a b : V) (h : strictEq a b = true) : looseEq a b = true := by
  cases a <;> cases b <;> simp_all [looseEq, strictEq]

/-- NaN equals nothing, not even itself -/
theorem nan_never_equal (v : V) : strictEq (.num .nan) v = false ∧ looseEq (.num .nan) v = false := by
  cases v <;> simp [strictEq, looseEq, numEq]

/-- `null == v` holds exactly for `null` and `undefined` -/
theorem null_looseEq_iff (v : V) : looseEq .null v = true ↔ (v = .null ∨ v = .undef) := by
  cases v <;> simp [looseEq, strictEq]

/-- `typeof` of a primitive is one of five strings (and `typeof null` is "object") -/
theorem typeOf_closed (v : V) : typeOf v ∈ ["undefined", "object", "boolean", "number", "string"] := by
  cases v <;> simp [typeOf]

/-- a string operand makes `+` a concatenation, whatever the other operand -/
theorem plus_string_left (a : String) (v : V) : plus (.str a) v = .str (a ++ toStr v) := by
  cases v <;> rfl
theorem plus_string_right (v : V) (b : String) (h : ∀ a, v ≠ .str a) : plus v (.str b) = .str (toStr v ++ b) := by
  cases v <;> first | rfl | (rename_i a; exact absurd rfl (h a))

/-- number addition is commutative, negation an involution -/
theorem add_comm (a b : Num) : add a b = add b a := by
  cases a <;> cases b <;> simp [add, Int.add_comm]
theorem neg_neg (n : Num) : neg (neg n) = n := by
  cases n <;> simp [neg]
  rename_i z
  by_cases h : z = 0
  · simp [h, neg]
  · simp [h, neg]

/-- nothing is less than itself; with a NaN operand every relational operator is false -/
theorem lt_irrefl (v : V) : opLt v v = false := by
  cases v with
  | str s => simp [opLt, lessThan, strLt]
  | num n => cases n <;> simp [opLt, lessThan, toNumber, numLt]
  | undef => simp [opLt, lessThan, toNumber, numLt]
  | null => simp [opLt, lessThan, toNumber, numLt]
  | bool b => simp [opLt, lessThan, toNumber, numLt]

theorem nan_relational_false (v : V) (h : ∀ s, v ≠ .str s) :
    opLt (.num .nan) v = false ∧ opGt (.num .nan) v = false ∧ opLe (.num .nan) v = false ∧ opGe (.num .nan) v = false := by
  cases v with
  | str t => exact absurd rfl (h t)
  | num n => cases n <;> simp [opLt, opGt, opLe, opGe, lessThan, toNumber, numLt]
  | undef => simp [opLt, opGt, opLe, opGe, lessThan, toNumber, numLt]
  | null => simp [opLt, opGt, opLe, opGe, lessThan, toNumber, numLt]
  | bool b => simp [opLt, opGt, opLe, opGe, lessThan, toNumber, numLt]

/-- `!` is ToBoolean negated; `!!v` is ToBoolean -/
theorem not_not (v : V) : (unop "!" v).bind (unop "!") = some (.bool (toBoolean v)) := by
  simp [unop, toBoolean]

/-! ### equivalent forms: the spellings a program may choose between denote the same value -/

theorem num_sub_zero (n : Num) : sub n (.int 0) = n := by
  cases n <;> simp [sub, neg, add]
theorem num_mul_one (n : Num) : mul n (.int 1) = n := by
  cases n <;> simp [mul, isNeg, isZero]
  rename_i z
  by_cases hz : z = 0 <;> simp [hz]
theorem num_neg_eq_mul (n : Num) : neg n = mul n (.int (-1)) := by
  cases n <;> simp [mul, neg, isNeg, isZero]
  rename_i z
  by_cases hz : z = 0
  · simp [hz]
  · simp [hz]

/-- `+v`, `v - 0` and `v * 1` are the same number (−0 included) -/
theorem unary_plus_forms (v : V) :
    unop "+" v = binop "-" v (.num (.int 0)) ∧ unop "+" v = binop "*" v (.num (.int 1)) := by
  have h0 : toNumber (.num (.int 0)) = .int 0 := rfl
  have h1 : toNumber (.num (.int 1)) = .int 1 := rfl
  simp only [unop, binop, h0, h1, num_sub_zero, num_mul_one, and_self]

/-- `-v` is `v * -1` (but not `0 - v`: that loses the sign of zero) -/
theorem neg_eq_mul_minus_one (v : V) : unop "-" v = binop "*" v (.num (.int (-1))) := by
  have h1 : toNumber (.num (.int (-1))) = .int (-1) := rfl
  simp only [unop, binop, h1, num_neg_eq_mul]
theorem neg_ne_zero_minus : unop "-" (.num (.int 0)) ≠ binop "-" (.num (.int 0)) (.num (.int 0)) := by decide

/-- `a > b` is `b < a`, `a >= b` is `b <= a`, `!=` / `!==` are the negations of `==` / `===` -/
theorem swapped_relational (a b : V) : binop ">" a b = binop "<" b a ∧ binop ">=" a b = binop "<=" b a := by
  simp [binop, opGt, opLt, opGe, opLe]
theorem negated_equality (a b : V) :
    binop "!=" a b = (binop "==" a b).bind (unop "!") ∧ binop "!==" a b = (binop "===" a b).bind (unop "!") := by
  simp [binop, unop, toBoolean]

/-- `a <= b` is `!(b < a)` exactly when no NaN is involved; with one it is false where `!(b < a)` is true -/
theorem le_is_not_gt (a b : V) (h : lessThan b a ≠ none) : binop "<=" a b = (binop "<" b a).bind (unop "!") := by
  simp only [binop, unop, opLe, opLt, toBoolean, Option.bind]
  cases hl : lessThan b a with
  | none => exact absurd hl h
  | some r => simp

/-! ### 32-bit operators: range, the `|0` / `~~` / `>>>0` spellings, commutativity, shift counts -/

theorem toUint32_lt (n : Num) : toUint32 n < 4294967296 := by
  cases n <;> simp [toUint32, two32]
  rename_i z
  have h := Int.emod_lt_of_pos z (show (0 : Int) < 4294967296 by decide)
  have h0 := Int.emod_nonneg z (show (4294967296 : Int) ≠ 0 by decide)
  omega

theorem signed32_range (u : Nat) (h : u < 4294967296) : -2147483648 ≤ signed32 u ∧ signed32 u < 2147483648 := by
  by_cases hu : u < 2147483648 <;> simp [signed32, two31, two32, hu] <;> omega

/-- ToInt32 always lands in [−2^31, 2^31) -/
theorem toInt32_range (n : Num) : -2147483648 ≤ toInt32 n ∧ toInt32 n < 2147483648 :=
  signed32_range _ (toUint32_lt n)

/-- the signed and the unsigned reading of 32 bits determine each other -/
theorem toUint32_signed32 (u : Nat) (h : u < 4294967296) : toUint32 (.int (signed32 u)) = u := by
  by_cases hu : u < 2147483648 <;> simp [toUint32, signed32, two31, two32, hu] <;> omega

theorem toInt32_of_range (z : Int) (h : -2147483648 ≤ z ∧ z < 2147483648) : toInt32 (.int z) = z := by
  simp only [toInt32, toUint32, signed32, two31, two32]
  by_cases hz : 0 ≤ z
  · have e : z % 4294967296 = z := Int.emod_eq_of_lt hz (by omega)
    simp [e]; omega
  · have e : z % 4294967296 = z + 4294967296 := by
      have := Int.emod_emod_of_dvd z (show (4294967296 : Int) ∣ 4294967296 from Int.dvd_refl _)
      have h1 : (z + 4294967296) % 4294967296 = z % 4294967296 := by simp
      rw [← h1]; exact Int.emod_eq_of_lt (by omega) (by omega)
    simp [e]; omega

/-- ToUint32 of a ToInt32 result is the same 32 bits -/
theorem toUint32_toInt32 (n : Num) : toUint32 (.int (toInt32 n)) = toUint32 n :=
  toUint32_signed32 _ (toUint32_lt n)

/-- `v | 0` is ToInt32(v); `~~v` is the same number -/
theorem bitor_zero (v : V) : binop "|" v (.num (.int 0)) = some (.num (.int (toInt32 (toNumber v)))) := by
  have h0 : toNumber (.num (.int 0)) = .int 0 := rfl
  simp [binop, bitOr, h0, toUint32, toInt32]
theorem double_not (v : V) : (unop "~" v).bind (unop "~") = binop "|" v (.num (.int 0)) := by
  rw [bitor_zero]
  generalize hn : toNumber v = n
  have h := toInt32_range n
  have hnum : ∀ x, toNumber (.num x) = x := fun _ => rfl
  simp only [unop, Option.bind, hn, hnum, bitNot]
  rw [toInt32_of_range (-(toInt32 n) - 1) (by omega)]
  congr 3; omega

theorem toUint32_natCast (u : Nat) (h : u < 4294967296) : toUint32 (.int (u : Int)) = u := by
  have e : (u : Int) % 4294967296 = (u : Int) := Int.emod_eq_of_lt (by omega) (by omega)
  simp [toUint32, two32, e]

/-- `v >>> 0` is ToUint32(v), and applying it twice changes nothing -/
theorem ushr_zero_idem (v : V) :
    (binop ">>>" v (.num (.int 0))).bind (fun r => binop ">>>" r (.num (.int 0))) = binop ">>>" v (.num (.int 0)) := by
  generalize hn : toNumber v = n
  have hnum : ∀ x, toNumber (.num x) = x := fun _ => rfl
  have hc : shiftCount (.int 0) = 0 := by decide
  simp only [binop, Option.bind, hn, hnum, shr, hc, Nat.shiftRight_zero]
  rw [toUint32_natCast _ (toUint32_lt n)]

/-- the bitwise operators are commutative -/
theorem bitwise_comm (a b : V) :
    binop "&" a b = binop "&" b a ∧ binop "|" a b = binop "|" b a ∧ binop "^" a b = binop "^" b a := by
  simp [binop, bitAnd, bitOr, bitXor, Nat.and_comm, Nat.or_comm, Nat.xor_comm]

/-- only the low five bits of the shift count matter: shifting by k and by k + 32 agree -/
theorem shift_count_mod32 (k : Int) : shiftCount (.int (k + 32)) = shiftCount (.int k) := by
  simp only [shiftCount, toUint32, two32]
  omega

end TsrunVerif.Ops

namespace TsrunVerif.Ctl

/-- **finally runs, and a normally completing finalizer leaves the pending completion alone**:
whatever the try block did - completed, returned, threw, broke out of or continued a loop - the
finalizer runs once on the state the block left, and the statement completes as the block did. -/
theorem finally_normal_keeps_pending (fuel : Nat) (s : St) (body f : List Stmt) (c1 : Completion) (s1 s3 : St)
    (hb : execList fuel (pushScopeFor s body) body = (c1, s1))
    (hf : execList fuel (pushScopeFor (popScope s1) f) f = (.normal, s3)) :
    exec (fuel + 1) s (.tryS body none [] (some f)) = (c1, popScope s3) := by
  simp only [exec, hb, List.isEmpty_nil, Option.isSome_some, Bool.and_self, ↓reduceIte]
  cases c1 <;> simp only [hf]

/-- **an abrupt finalizer overrides**: a return / throw / break / continue inside `finally`
replaces whatever was pending (a return value, an exception in flight). -/
theorem finally_abrupt_overrides (fuel : Nat) (s : St) (body f : List Stmt) (c1 c3 : Completion) (hc : c3 ≠ .normal)
    (s1 s3 : St) (hb : execList fuel (pushScopeFor s body) body = (c1, s1))
    (hf : execList fuel (pushScopeFor (popScope s1) f) f = (c3, s3)) :
    exec (fuel + 1) s (.tryS body none [] (some f)) = (c3, popScope s3) := by
  simp only [exec, hb, List.isEmpty_nil, Option.isSome_some, Bool.and_self, ↓reduceIte]
  cases c1 <;> simp only [hf] <;> cases c3 <;> first | rfl | exact absurd rfl hc

/-- **catch receives the thrown value** in a fresh scope holding only the catch parameter. -/
theorem catch_binds_thrown (fuel : Nat) (s : St) (body handler : List Stmt) (x : String) (v : Int) (s1 : St)
    (hb : execList fuel (pushScopeFor s body) body = (.thr v, s1)) :
    exec (fuel + 1) s (.tryS body (some x) handler none)
      = ((execList fuel (pushScopeFor (declare (pushScope (popScope s1)) x v) handler) handler).1,
         popScope (popScope (execList fuel (pushScopeFor (declare (pushScope (popScope s1)) x v) handler) handler).2)) := by
  simp only [exec, hb]

/-- a loop consumes `break` / `continue` that are unlabelled or carry one of its own labels, and
lets every other abrupt completion through -/
theorem loop_break_own_label (fuel : Nat) (s : St) (labels : List String) (c : Expr) (body : List Stmt)
    (l : String) (hl : labels.contains l = true) (cv : Int) (he : eval s c = some cv) (hc : cv ≠ 0) (s1 : St)
    (hb : execList fuel (pushScopeFor s body) body = (.brk (some l), s1)) :
    loop (fuel + 1) s labels c body = (.normal, popScope s1) := by
  have hl' : l ∈ labels := by simpa using hl
  simp [loop, he, hc, hb, hl']

theorem loop_break_foreign_label (fuel : Nat) (s : St) (labels : List String) (c : Expr) (body : List Stmt)
    (l : String) (hl : labels.contains l = false) (cv : Int) (he : eval s c = some cv) (hc : cv ≠ 0) (s1 : St)
    (hb : execList fuel (pushScopeFor s body) body = (.brk (some l), s1)) :
    loop (fuel + 1) s labels c body = (.brk (some l), popScope s1) := by
  have hl' : l ∉ labels := by simpa using hl
  simp [loop, he, hc, hb, hl']

-- non-vacuity: return pending behind a finally that logs; finally that overrides with its own return
example : run [.tryS [.ret (.lit 1)] none [] (some [.log "f" (.lit 0)])] = (["f0"], "return 1") := by decide
example : run [.tryS [.thr (.lit 1)] none [] (some [.ret (.lit 2)])] = ([], "return 2") := by decide
example : run [.letS "i" (.lit 0), .whileS ["a"] (.lt (.var "i") (.lit 3))
    [.assign "i" (.add (.var "i") (.lit 1)), .tryS [.ifS (.eq (.var "i") (.lit 2)) [.cont (some "a")] [], .log "b" (.var "i")] none [] (some [.log "f" (.var "i")])]]
  = (["b1", "f1", "f2", "b3", "f3"], "end") := by decide

/-- **temporal dead zone**: inside a block, a name declared by a later `let` of that block cannot
be read before the declaration has run - even when an enclosing scope has a variable of that name. -/
theorem tdz_shadows_outer (fuel : Nat) (s : St) (x : String) (e : Expr) (tag : String) :
    exec (fuel + 3) s (.block [.log tag (.var x), .letS x e]) = (.thr refErr, s) := by
  simp [exec, execList, pushScopeFor, letNames, eval, lookup, popScope]

end TsrunVerif.Ctl
