import TsrunVerif.Lemmas.HeapStep

/-!
# C13 — the collector implements guard reachability exactly

Property theorems over M-Heap (`Model/Heap.lean`).  They quantify over every heap
state satisfying the invariant `Inv` (established by `inv_init`, preserved by every
public operation: `inv_step`, hence true of every reachable state: `inv_run`) and over
every operation list (unbounded length, any arguments).

Re-exported from the lemma files (same names, proved there):
`mark_sound`, `mark_complete`, `mark_terminates`, `collect_exact`,
`collect_keeps_reachable`, `collect_resets_unreachable`, `inv_init`, `inv_step`.
-/
namespace TsrunVerif.Heap

/-- every state reachable from the empty heap by public operations satisfies `Inv`. -/
theorem inv_run (ops : List Op) (h : Heap) (hi : Inv h) : Inv (run h ops) := by
  induction ops generalizing h with
  | nil => exact hi
  | cons op ops ih => exact ih (step h op) (inv_step h op hi)

/-- what the user can read through a handle to slot `i`. -/
def content (h : Heap) (i : Nat) : Option (Nat × List Nat) :=
  (h.slots[i]?).map (fun s => (s.payload, s.links))

/-- operations that write *through a handle* to slot `i`. -/
def Op.writes (i : Nat) : Op → Prop
  | .link a _ => a = i
  | .unlink a _ => a = i
  | .write a _ => a = i
  | _ => False

theorem content_setAt_ne (slots : List Slot) (a i : Nat) (f : Slot → Slot) (hne : a ≠ i) :
    ((setAt slots a f)[i]?).map (fun s => (s.payload, s.links)) = (slots[i]?).map (fun s => (s.payload, s.links)) := by
  rw [getElem?_setAt]
  have : ¬ i = a := fun e => hne e.symm
  simp [this]

theorem allocPre_keeps (h : Heap) (i : Nat) (hr : Reach h i) :
    (allocPre h).slots[i]? = h.slots[i]? ∧ pooledAt (allocPre h) i = false := by
  unfold allocPre
  simp only
  -- reachability does not depend on the allocation counter
  have hr' : Reach { h with netAllocs := h.netAllocs + 1 } i := by
    induction hr with
    | root hi => exact Reach.root hi
    | step _ hj ih => exact Reach.step ih hj
  split
  · exact ⟨collect_keeps_reachable _ i hr', (collect_exact _ i).mpr hr'⟩
  · exact ⟨rfl, reach_not_pooled _ i hr'⟩

theorem allocCore_keeps (h : Heap) (hi : Inv h) (hal : h.alive = true) (i : Nat) (hnp : pooledAt h i = false) :
    (allocCore h).1.slots[i]? = h.slots[i]? := by
  obtain ⟨s, hs, hsp⟩ := (pooledAt_false_iff h i).mp hnp
  unfold allocCore
  cases hl : h.free.getLast? with
  | some idx =>
    simp only
    rw [getElem?_setAt]
    have hne : ¬ i = idx := by
      intro e; subst e
      obtain ⟨s', hs', hp'⟩ := ((hi hal).2 i).mp (getLast?_mem hl)
      rw [hs] at hs'; cases hs'; simp [hsp] at hp'
    simp [hne]
  | none =>
    simp only
    exact List.getElem?_append_left (List.getElem?_eq_some_iff.mp hs).1

/-- **one step**: an operation that does not write through a handle to slot `i`
leaves the contents of `i` alone as long as `i` is reachable from a live guard. -/
theorem step_keeps_reachable (h : Heap) (op : Op) (i : Nat) (hi : Inv h)
    (hr : Reach h i) (hw : ¬ op.writes i) :
    content (step h op) i = content h i := by
  unfold content
  cases op with
  | mkGuard => rfl
  | dropGuard g => rfl
  | alloc g =>
    simp only [step]
    split
    · rename_i hal
      rw [alloc_eq]
      simp only
      obtain ⟨h1, h2⟩ := allocPre_keeps h i hr
      have hal' : (allocPre h).alive = true := by
        unfold allocPre; simp only; split
        · rw [collect_alive]; exact hal
        · exact hal
      rw [allocCore_keeps _ (inv_allocPre h hi) hal' i h2, h1]
    · rfl
  | guard g s => simp only [step]; split <;> rfl
  | unguard g s => rfl
  | clear g => rfl
  | link a b =>
    simp only [step]
    split
    · exact content_setAt_ne _ _ _ _ (fun e => hw e)
    · rfl
  | unlink a p =>
    simp only [step]
    split
    · exact content_setAt_ne _ _ _ _ (fun e => hw e)
    · rfl
  | write a v =>
    simp only [step]
    split
    · exact content_setAt_ne _ _ _ _ (fun e => hw e)
    · rfl
  | collect =>
    simp only [step]
    split
    · rw [collect_keeps_reachable h i hr]
    · rfl
  | setThreshold n => simp only [step]; split <;> rfl
  | dropHeap =>
    simp only [step, List.getElem?_map]
    cases h.slots[i]? <;> rfl
  | handleOp => rfl

/-- "`i` stays reachable from a live guard and nobody writes to it" along a history. -/
def Quiet (i : Nat) : Heap → List Op → Prop
  | _, [] => True
  | h, op :: ops => Reach h i ∧ ¬ op.writes i ∧ Quiet i (step h op) ops

/-- **C13, first clause, full statement**: for every history, an object keeps its
contents for as long as it is reachable from a live guard (and is not written to). -/
theorem reachable_keeps_contents (ops : List Op) (h : Heap) (i : Nat) (hi : Inv h)
    (hq : Quiet i h ops) : content (run h ops) i = content h i := by
  induction ops generalizing h with
  | nil => rfl
  | cons op ops ih =>
    obtain ⟨hr, hw, hq'⟩ := hq
    have := ih (step h op) (inv_step h op hi) hq'
    simp only [run, List.foldl_cons] at this ⊢
    rw [this]
    exact step_keeps_reachable h op i hi hr hw

/-- **C13, second clause**: after a collection exactly the objects reachable from live
guards are counted live (`live_objects` is the length of a duplicate-free list of
precisely the reachable slots), all others are reset and on the free list
(`collect_resets_unreachable`). -/
theorem stats_exact (h : Heap) (hi : Inv h) (hal : h.alive = true) :
    ∃ l : List Nat, l.Nodup ∧ (∀ i, i ∈ l ↔ Reach h i) ∧ (stats (collect h)).2.2 = l.length := by
  have hic := inv_collect h hi
  have halc : (collect h).alive = true := by rw [collect_alive]; exact hal
  obtain ⟨hnd, hiff⟩ := hic halc
  let n := (collect h).slots.length
  let p : Nat → Bool := fun i => pooledAt (collect h) i
  refine ⟨(List.range n).filter (fun i => !p i), ?_, ?_, ?_⟩
  · exact List.Nodup.sublist List.filter_sublist List.nodup_range
  · intro i
    rw [← collect_exact h i, List.mem_filter]
    constructor
    · rintro ⟨_, h2⟩; simpa [p] using h2
    · intro h2
      obtain ⟨s, hs, _⟩ := (pooledAt_false_iff _ _).mp h2
      exact ⟨List.mem_range.mpr (List.getElem?_eq_some_iff.mp hs).1, by simp [p, h2]⟩
  · -- the free list is a permutation of the pooled indices
    have hperm : (collect h).free.Perm ((List.range n).filter p) := by
      apply (List.perm_ext_iff_of_nodup hnd (List.Nodup.sublist List.filter_sublist List.nodup_range)).mpr
      intro i
      rw [hiff i, List.mem_filter]
      constructor
      · rintro ⟨s, hs, hp⟩
        exact ⟨List.mem_range.mpr (List.getElem?_eq_some_iff.mp hs).1, by simp [p, pooledAt, hs, hp]⟩
      · rintro ⟨h1, h2⟩
        have hlt := List.mem_range.mp h1
        have hs : (collect h).slots[i]? = some ((collect h).slots[i]) := List.getElem?_eq_getElem hlt
        refine ⟨_, hs, ?_⟩
        simpa [p, pooledAt, hs] using h2
    have hlen := hperm.length_eq
    have hsum := List.length_eq_countP_add_countP p (l := List.range n)
    simp only [List.countP_eq_length_filter, List.length_range] at hsum
    have hnot : (List.filter (fun a => decide ¬p a = true) (List.range n)) = (List.range n).filter (fun i => !p i) := by
      apply List.filter_congr; intro x _; cases p x <;> simp
    rw [hnot] at hsum
    simp only [stats]
    show n - (collect h).free.length = _
    omega

/-- the arithmetic behind the unchecked bitmap accesses: slot index `i` of an arena with
`c` full-or-partial chunks addresses chunk `i / 256 < c`, bit `i % 256 < 256`, word
`(i % 256) / 64 < 4`; and distinct indices address distinct (chunk, bit) pairs. -/
theorem bitmap_index_in_bounds (i c : Nat) (h : i < c * 256) :
    i / 256 < c ∧ i % 256 < 256 ∧ (i % 256) / 64 < 4 ∧ (i % 256) % 64 < 64
      ∧ (i / 256) * 256 + ((i % 256) / 64) * 64 + (i % 256) % 64 = i := by
  omega

/-! ## non-vacuity -/

/-- a concrete reachable state: guard 0 roots slot 0 which links to slot 1; slot 2 is garbage. -/
def demo : Heap := run Heap.init
  [.setThreshold 0, .mkGuard, .alloc 0, .alloc 0, .alloc 0, .link 0 1, .write 1 42, .unguard 0 1, .unguard 0 2]

example : Inv demo := inv_run _ _ inv_init
example : rootsOf demo = [0] ∧ succs demo 0 = [1] := by decide
private theorem reach1 (h : Heap) (h0 : 0 ∈ rootsOf h) (h1 : 1 ∈ succs h 0) : Reach h 1 :=
  Reach.step (Reach.root h0) h1
example : Reach demo 1 := reach1 _ (by decide) (by decide)
example : Quiet 1 demo [.collect, .alloc 0, .write 0 7, .collect] := by
  refine ⟨reach1 _ (by decide) (by decide), by simp [Op.writes], ?_⟩
  refine ⟨reach1 _ (by decide) (by decide), by simp [Op.writes], ?_⟩
  refine ⟨reach1 _ (by decide) (by decide), by simp [Op.writes], ?_⟩
  exact ⟨reach1 _ (by decide) (by decide), by simp [Op.writes], trivial⟩
example : content (collect demo) 1 = some (42, []) ∧ content (collect demo) 2 = some (0, []) ∧
    stats (collect demo) = (3, 1, 2) := by decide

end TsrunVerif.Heap
