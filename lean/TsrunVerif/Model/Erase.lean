/-
M-Erase — TypeScript's static syntax and its erasure.

`Ty` is the type grammar (one constructor per `TypeAnnotation` kind of /repo/src/ast.rs; the
extracted list `Gen/TypeKinds.lean` is checked against `coveredKinds` on every run), `Expr` / `Stmt`
are a core language in which every position where TypeScript allows static syntax carries an
optional decoration, `strip` removes all of them (type-only statements disappear), `render` prints
a program as source text.  TypeScript's semantics is *defined* by erasure: what a decorated
program does is what its stripped program does.  tsrun has no erasure pass - its parser builds type
nodes and its compiler skips them - so the correspondence check compiles `render p` and
`render (strip p)` with the real parser and compiler and requires identical bytecode and
identical outcomes.
-/
namespace TsrunVerif.Erase

inductive Ty where
  | kw (name : String)                       -- number, string, any, unknown, never, void, …
  | ref (name : String) (args : List Ty)      -- Foo, Array<T>, Map<K, V>
  | lit (text : String)                      -- 'a', 1, true
  | obj (members : List (String × Bool × Ty)) -- { a: T; b?: U }
  | arr (elem : Ty)                          -- T[]
  | tuple (elems : List Ty)                  -- [A, B]
  | union (alts : List Ty)
  | inter (alts : List Ty)
  | fn (params : List (String × Ty)) (ret : Ty)
  | cond (chk ext thn els : Ty)              -- A extends B ? C : D
  | infer (name : String)                    -- infer U   (printed only inside a conditional's extends)
  | mapped (key : String) (src : Ty) (val : Ty) -- { [K in S]: V }
  | indexed (obj idx : Ty)                   -- T[K]
  | typeofT (name : String)                  -- typeof x
  | keyof (t : Ty)
  | template (parts : List String) (tys : List Ty) -- `a${T}b`
  | paren (t : Ty)
  | this
  deriving Repr, Inhabited

/-- the `TypeAnnotation` kinds of src/ast.rs this grammar covers (`TypePredicate` appears only as a
return type and is covered by `Ret.pred`) -/
def coveredKinds : List String :=
  ["Keyword", "Reference", "Literal", "Object", "Array", "Tuple", "Union", "Intersection", "Function",
   "Conditional", "Infer", "Mapped", "Indexed", "Typeof", "Keyof", "TemplateLiteral", "TypePredicate",
   "Parenthesized", "This"]

/-- type parameter: name, constraint, default -/
structure TParam where
  name : String
  ext : Option Ty
  dflt : Option Ty
  deriving Repr, Inhabited

inductive Ret where
  | none
  | ty (t : Ty)
  | pred (param : String) (t : Ty)           -- x is T
  | asserts (param : String)                 -- asserts x
  deriving Repr, Inhabited

structure Param where
  name : String
  ty : Option Ty
  opt : Bool                                  -- `x?: T` (only when there is no default)
  dflt : Option Nat                           -- default value (a number literal)
  deriving Repr, Inhabited

inductive Expr where
  | num (n : Nat)
  | str (s : String)
  | var (x : String)
  | bin (op : String) (a b : Expr)
  | call (f : Expr) (targs : List Ty) (args : List Expr)    -- f<T>(a)
  | newE (c : String) (targs : List Ty) (args : List Expr)   -- new C<T>(a)
  | arrow (tps : List TParam) (ps : List Param) (ret : Ret) (body : Expr)
  | asyncArrow (tps : List TParam) (ps : List Param) (ret : Ret) (body : Expr)   -- async <T>(p: T): R => body
  | asT (e : Expr) (t : Ty)                    -- e as T
  | satisfies (e : Expr) (t : Ty)
  | angle (t : Ty) (e : Expr)                  -- <T>e
  | nonNull (e : Expr)                         -- e!
  | member (e : Expr) (p : String)
  | index (e i : Expr)
  | arrLit (es : List Expr)
  | objLit (ps : List (String × Expr))
  | tmpl (parts : List String) (es : List Expr)
  | paren (e : Expr)
  | cond (c a b : Expr)
  | assign (lhs rhs : Expr)                    -- lhs = rhs
  deriving Repr, Inhabited

/-- class member modifiers that are purely static -/
structure Mods where
  access : Option String                      -- public / private / protected
  readonly : Bool
  override_ : Bool
  deriving Repr, Inhabited

mutual
inductive Member where
  | field (m : Mods) (static_ : Bool) (name : String) (opt : Bool) (definite : Bool) (ty : Option Ty) (init : Expr)
  /-- `locals` are the statements of the method body before its `return` (nested functions and
      classes — with their own static syntax — may appear there) -/
  | method (m : Mods) (static_ : Bool) (name : String) (tps : List TParam) (ps : List Param) (ret : Ret)
      (overloads : List (List Param × Ret)) (locals : List Stmt) (body : Expr)
  | indexSig (key : String) (kty vty : Ty)    -- [k: string]: T     (no run-time meaning)
  | declareField (name : String) (ty : Ty)    -- declare x: T;      (no run-time meaning)
  | staticBlock (body : List Stmt)            -- static { … }       (runs when the class is defined)

inductive Stmt where
  | decl (kw : String) (x : String) (definite : Bool) (ty : Option Ty) (init : Expr)
  | fn (name : String) (tps : List TParam) (ps : List Param) (ret : Ret)
      (overloads : List (List Param × Ret)) (body : List Stmt) (result : Expr)
  | cls (name : String) (tps : List TParam) (impls : List Ty) (members : List Member)
  | expr (e : Expr)
  | ifS (c : Expr) (thn els : List Stmt)
  | typeAlias (name : String) (tps : List TParam) (t : Ty)
  | iface (name : String) (tps : List TParam) (exts : List Ty) (members : List (String × Bool × Ty))
  | declareVar (name : String) (t : Ty)       -- declare const x: T;
  | declareFn (name : String) (ps : List Param) (ret : Ret)
end

instance : Inhabited Stmt := ⟨.expr (.num 0)⟩
instance : Inhabited Member := ⟨.indexSig "k" (.kw "string") (.kw "any")⟩

abbrev Prog := List Stmt

/-! ### erasure -/

def stripParam (p : Param) : Param := { p with ty := none, opt := false }

mutual
def stripE : Expr → Expr
  | .num n => .num n
  | .str s => .str s
  | .var x => .var x
  | .bin op a b => .bin op (stripE a) (stripE b)
  | .assign a b => .assign (stripE a) (stripE b)
  | .call f _ args => .call (stripE f) [] (stripEs args)
  | .newE c _ args => .newE c [] (stripEs args)
  | .arrow _ ps _ body => .arrow [] (ps.map stripParam) .none (stripE body)
  | .asyncArrow _ ps _ body => .asyncArrow [] (ps.map stripParam) .none (stripE body)
  | .asT e _ => stripE e
  | .satisfies e _ => stripE e
  | .angle _ e => stripE e
  | .nonNull e => stripE e
  | .member e p => .member (stripE e) p
  | .index e i => .index (stripE e) (stripE i)
  | .arrLit es => .arrLit (stripEs es)
  | .objLit ps => .objLit (stripPs ps)
  | .tmpl parts es => .tmpl parts (stripEs es)
  | .paren e => .paren (stripE e)
  | .cond c a b => .cond (stripE c) (stripE a) (stripE b)
def stripEs : List Expr → List Expr
  | [] => []
  | e :: es => stripE e :: stripEs es
def stripPs : List (String × Expr) → List (String × Expr)
  | [] => []
  | (k, e) :: ps => (k, stripE e) :: stripPs ps
end

def noMods : Mods := { access := none, readonly := false, override_ := false }

mutual
def stripMember : Member → Option Member
  | .field _ st name _ _ _ init => some (.field noMods st name false false none (stripE init))
  | .method _ st name _ ps _ _ locals body =>
    some (.method noMods st name [] (ps.map stripParam) .none [] (stripSs locals) (stripE body))
  | .indexSig _ _ _ => none
  | .declareField _ _ => none
  | .staticBlock body => some (.staticBlock (stripSs body))
def stripMs : List Member → List Member
  | [] => []
  | m :: ms => match stripMember m with
    | some m' => m' :: stripMs ms
    | none => stripMs ms
def stripS : Stmt → Option Stmt
  | .decl kw x _ _ init => some (.decl kw x false none (stripE init))
  | .fn name _ ps _ _ body result => some (.fn name [] (ps.map stripParam) .none [] (stripSs body) (stripE result))
  | .cls name _ _ members => some (.cls name [] [] (stripMs members))
  | .expr e => some (.expr (stripE e))
  | .ifS c thn els => some (.ifS (stripE c) (stripSs thn) (stripSs els))
  | .typeAlias _ _ _ => none
  | .iface _ _ _ _ => none
  | .declareVar _ _ => none
  | .declareFn _ _ _ => none
def stripSs : List Stmt → List Stmt
  | [] => []
  | s :: ss => match stripS s with
    | some s' => s' :: stripSs ss
    | none => stripSs ss
end

def strip (p : Prog) : Prog := stripSs p

/-! ### plainness: no static syntax left -/

def plainParam (p : Param) : Bool := p.ty.isNone && !p.opt

def plainRet : Ret → Bool
  | .none => true
  | _ => false

mutual
def plainE : Expr → Bool
  | .num _ => true
  | .str _ => true
  | .var _ => true
  | .bin _ a b => plainE a && plainE b
  | .assign a b => plainE a && plainE b
  | .call f targs args => plainE f && targs.isEmpty && plainEs args
  | .newE _ targs args => targs.isEmpty && plainEs args
  | .arrow tps ps ret body => tps.isEmpty && ps.all plainParam && plainRet ret && plainE body
  | .asyncArrow tps ps ret body => tps.isEmpty && ps.all plainParam && plainRet ret && plainE body
  | .asT _ _ => false
  | .satisfies _ _ => false
  | .angle _ _ => false
  | .nonNull _ => false
  | .member e _ => plainE e
  | .index e i => plainE e && plainE i
  | .arrLit es => plainEs es
  | .objLit ps => plainPs ps
  | .tmpl _ es => plainEs es
  | .paren e => plainE e
  | .cond c a b => plainE c && plainE a && plainE b
def plainEs : List Expr → Bool
  | [] => true
  | e :: es => plainE e && plainEs es
def plainPs : List (String × Expr) → Bool
  | [] => true
  | (_, e) :: ps => plainE e && plainPs ps
end

def plainMods (m : Mods) : Bool := m.access.isNone && !m.readonly && !m.override_

mutual
def plainMember : Member → Bool
  | .field m _ _ opt definite ty init => plainMods m && !opt && !definite && ty.isNone && plainE init
  | .method m _ _ tps ps ret overloads locals body =>
    plainMods m && tps.isEmpty && ps.all plainParam && plainRet ret && overloads.isEmpty && plainSs locals && plainE body
  | .indexSig _ _ _ => false
  | .declareField _ _ => false
  | .staticBlock body => plainSs body
def plainMs : List Member → Bool
  | [] => true
  | m :: ms => plainMember m && plainMs ms
def plainS : Stmt → Bool
  | .decl _ _ definite ty init => !definite && ty.isNone && plainE init
  | .fn _ tps ps ret overloads body result =>
    tps.isEmpty && ps.all plainParam && plainRet ret && overloads.isEmpty && plainSs body && plainE result
  | .cls _ tps impls members => tps.isEmpty && impls.isEmpty && plainMs members
  | .expr e => plainE e
  | .ifS c thn els => plainE c && plainSs thn && plainSs els
  | .typeAlias _ _ _ => false
  | .iface _ _ _ _ => false
  | .declareVar _ _ => false
  | .declareFn _ _ _ => false
def plainSs : List Stmt → Bool
  | [] => true
  | s :: ss => plainS s && plainSs ss
end

/-! ### printer -/

def sepBy (sep : String) (l : List String) : String := sep.intercalate l

mutual
def renderTy : Ty → String
  | .kw n => n
  | .ref n args => if args.isEmpty then n else n ++ "<" ++ sepBy ", " (renderTys args) ++ ">"
  | .lit t => t
  | .obj ms => "{ " ++ sepBy " " (renderMs ms) ++ " }"
  | .arr e => "(" ++ renderTy e ++ ")[]"
  | .tuple es => "[" ++ sepBy ", " (renderTys es) ++ "]"
  | .union alts => "(" ++ sepBy " | " (renderTys alts) ++ ")"
  | .inter alts => "(" ++ sepBy " & " (renderTys alts) ++ ")"
  | .fn ps ret => "((" ++ sepBy ", " (renderFps ps) ++ ") => " ++ renderTy ret ++ ")"
  | .cond c e t f => "(" ++ renderTy c ++ " extends " ++ renderTy e ++ " ? " ++ renderTy t ++ " : " ++ renderTy f ++ ")"
  | .infer n => "infer " ++ n
  | .mapped k s v => "{ [" ++ k ++ " in " ++ renderTy s ++ "]: " ++ renderTy v ++ " }"
  | .indexed o i => "(" ++ renderTy o ++ ")[" ++ renderTy i ++ "]"
  | .typeofT n => "typeof " ++ n
  | .keyof t => "keyof (" ++ renderTy t ++ ")"
  | .template parts tys => "`" ++ renderTmplTy parts tys ++ "`"
  | .paren t => "(" ++ renderTy t ++ ")"
  | .this => "this"
def renderTys : List Ty → List String
  | [] => []
  | t :: ts => renderTy t :: renderTys ts
def renderMs : List (String × Bool × Ty) → List String
  | [] => []
  | (k, o, t) :: ms => (k ++ (if o then "?" else "") ++ ": " ++ renderTy t ++ ";") :: renderMs ms
def renderFps : List (String × Ty) → List String
  | [] => []
  | (k, t) :: ps => (k ++ ": " ++ renderTy t) :: renderFps ps
def renderTmplTy : List String → List Ty → String
  | p :: ps, t :: ts => p ++ "${" ++ renderTy t ++ "}" ++ renderTmplTy ps ts
  | p :: _, [] => p
  | [], _ => ""
end

def renderTParam (p : TParam) : String :=
  p.name ++ (match p.ext with | some t => " extends " ++ renderTy t | none => "")
         ++ (match p.dflt with | some t => " = " ++ renderTy t | none => "")

def renderTParams (ps : List TParam) : String :=
  if ps.isEmpty then "" else "<" ++ sepBy ", " (ps.map renderTParam) ++ ">"

def renderTArgs (ts : List Ty) : String :=
  if ts.isEmpty then "" else "<" ++ sepBy ", " (renderTys ts) ++ ">"

def renderParam (p : Param) : String :=
  p.name ++ (if p.opt && p.dflt.isNone then "?" else "")
    ++ (match p.ty with | some t => ": " ++ renderTy t | none => "")
    ++ (match p.dflt with | some n => " = " ++ toString n | none => "")

def renderParams (ps : List Param) : String := "(" ++ sepBy ", " (ps.map renderParam) ++ ")"

def renderRet : Ret → String
  | .none => ""
  | .ty t => ": " ++ renderTy t
  | .pred p t => ": " ++ p ++ " is " ++ renderTy t
  | .asserts p => ": asserts " ++ p

mutual
def renderE : Expr → String
  | .num n => toString n
  | .str s => "'" ++ s ++ "'"
  | .var x => x
  | .bin op a b => "(" ++ renderE a ++ " " ++ op ++ " " ++ renderE b ++ ")"
  | .assign a b => "(" ++ renderE a ++ " = " ++ renderE b ++ ")"
  | .call f targs args => renderE f ++ renderTArgs targs ++ "(" ++ sepBy ", " (renderEs args) ++ ")"
  | .newE c targs args => "new " ++ c ++ renderTArgs targs ++ "(" ++ sepBy ", " (renderEs args) ++ ")"
  | .arrow tps ps ret body => "(" ++ renderTParams tps ++ renderParams ps ++ renderRet ret ++ " => " ++ renderE body ++ ")"
  | .asyncArrow tps ps ret body => "(async " ++ renderTParams tps ++ renderParams ps ++ renderRet ret ++ " => " ++ renderE body ++ ")"
  | .asT e t => "(" ++ renderE e ++ " as " ++ renderTy t ++ ")"
  | .satisfies e t => "(" ++ renderE e ++ " satisfies " ++ renderTy t ++ ")"
  | .angle t e => "(<" ++ renderTy t ++ ">" ++ renderE e ++ ")"
  | .nonNull e => renderE e ++ "!"
  | .member e p => renderE e ++ "." ++ p
  | .index e i => renderE e ++ "[" ++ renderE i ++ "]"
  | .arrLit es => "[" ++ sepBy ", " (renderEs es) ++ "]"
  | .objLit ps => "({" ++ sepBy ", " (renderOps ps) ++ "})"
  | .tmpl parts es => "`" ++ renderTmpl parts es ++ "`"
  | .paren e => "(" ++ renderE e ++ ")"
  | .cond c a b => "(" ++ renderE c ++ " ? " ++ renderE a ++ " : " ++ renderE b ++ ")"
def renderEs : List Expr → List String
  | [] => []
  | e :: es => renderE e :: renderEs es
def renderOps : List (String × Expr) → List String
  | [] => []
  | (k, e) :: ps => (k ++ ": " ++ renderE e) :: renderOps ps
def renderTmpl : List String → List Expr → String
  | p :: ps, e :: es => p ++ "${" ++ renderE e ++ "}" ++ renderTmpl ps es
  | p :: _, [] => p
  | [], _ => ""
end

/-- TypeScript's modifier order: accessibility, static, override, readonly -/
def renderMods (m : Mods) (st : Bool) : String :=
  (match m.access with | some a => a ++ " " | none => "") ++ (if st then "static " else "")
    ++ (if m.override_ then "override " else "") ++ (if m.readonly then "readonly " else "")

mutual
def renderMember : Member → String
  | .field m st name opt definite ty init =>
    renderMods m st ++ name ++ (if opt then "?" else if definite then "!" else "")
      ++ (match ty with | some t => ": " ++ renderTy t | none => "") ++ " = " ++ renderE init ++ ";"
  | .method m st name tps ps ret overloads locals body =>
    sepBy " " (overloads.map (fun o => renderMods m st ++ name ++ renderParams o.1 ++ renderRet o.2 ++ ";"))
      ++ (if overloads.isEmpty then "" else " ")
      ++ renderMods m st ++ name ++ renderTParams tps ++ renderParams ps ++ renderRet ret
      ++ " { " ++ renderSs locals ++ "return " ++ renderE body ++ "; }"
  | .indexSig k kt vt => "[" ++ k ++ ": " ++ renderTy kt ++ "]: " ++ renderTy vt ++ ";"
  | .declareField name ty => "declare " ++ name ++ ": " ++ renderTy ty ++ ";"
  | .staticBlock body => "static { " ++ renderSs body ++ "}"
def renderMembers : List Member → List String
  | [] => []
  | m :: ms => renderMember m :: renderMembers ms
def renderS : Stmt → String
  | .decl kw x definite ty init =>
    kw ++ " " ++ x ++ (if definite then "!" else "") ++ (match ty with | some t => ": " ++ renderTy t | none => "")
      ++ " = " ++ renderE init ++ ";"
  | .fn name tps ps ret overloads body result =>
    sepBy "\n" (overloads.map (fun o => "function " ++ name ++ renderParams o.1 ++ renderRet o.2 ++ ";"))
      ++ (if overloads.isEmpty then "" else "\n")
      ++ "function " ++ name ++ renderTParams tps ++ renderParams ps ++ renderRet ret ++ " {\n"
      ++ renderSs body ++ "return " ++ renderE result ++ ";\n}"
  | .cls name tps impls members =>
    "class " ++ name ++ renderTParams tps
      ++ (if impls.isEmpty then "" else " implements " ++ sepBy ", " (renderTys impls))
      ++ " {\n" ++ sepBy "\n" (renderMembers members) ++ "\n}"
  | .expr e => renderE e ++ ";"
  | .ifS c thn els => "if (" ++ renderE c ++ ") {\n" ++ renderSs thn ++ "} else {\n" ++ renderSs els ++ "}"
  | .typeAlias name tps t => "type " ++ name ++ renderTParams tps ++ " = " ++ renderTy t ++ ";"
  | .iface name tps exts ms =>
    "interface " ++ name ++ renderTParams tps
      ++ (if exts.isEmpty then "" else " extends " ++ sepBy ", " (renderTys exts))
      ++ " { " ++ sepBy " " (renderMs ms) ++ " }"
  | .declareVar name t => "declare const " ++ name ++ ": " ++ renderTy t ++ ";"
  | .declareFn name ps ret => "declare function " ++ name ++ renderParams ps ++ renderRet ret ++ ";"
def renderSs : List Stmt → String
  | [] => ""
  | s :: ss => renderS s ++ "\n" ++ renderSs ss
end

def render (p : Prog) : String := renderSs p

end TsrunVerif.Erase
