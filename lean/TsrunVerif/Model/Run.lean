/-
M-Run — the two ways of driving a VM (`/repo/src/interpreter/mod.rs`):
* `eval`  → `run_vm_to_completion` (loop inside one call, then map the terminal `VmResult`),
* `prepare` + `step`* → one instruction per call, `process_vm_result` maps the terminal result.
Both result mappings are transcribed separately (they are separate copies in the Rust source).
The VM itself is an arbitrary deterministic step function.
-/
namespace TsrunVerif.Run

inductive VmResult where
  | complete | error | suspend | suspendForOrder | yield
  deriving Repr, DecidableEq, Inhabited

/-- what the mapping looks at: are there orders waiting to be reported, is a context suspended
for an order, are there contexts waiting on promises. -/
structure Ledger where
  pendingOrders : Bool
  suspendedForOrder : Bool
  waiting : Bool
  deriving Repr, DecidableEq, Inhabited

inductive Out where
  | suspendedReportingPending     -- Suspended { pending, cancelled }
  | suspendedNoPending            -- Suspended { [], cancelled }
  | complete
  | err
  | internalErr                   -- "cannot yield at top level"
  deriving Repr, DecidableEq, Inhabited

/-- `run_vm_to_completion` (used by `eval`). -/
def mapEval (r : VmResult) (l : Ledger) : Out :=
  match r with
  | .complete =>
    if l.pendingOrders then .suspendedReportingPending
    else if l.suspendedForOrder || l.waiting then .suspendedNoPending
    else .complete
  | .error => .err
  | .suspend => .suspendedReportingPending
  | .suspendForOrder => .suspendedReportingPending
  | .yield => .internalErr

/-- `process_vm_result` (used by `step`). -/
def mapStep (r : VmResult) (l : Ledger) : Out :=
  match r with
  | .complete =>
    if l.pendingOrders then .suspendedReportingPending
    else if l.suspendedForOrder || l.waiting then .suspendedNoPending
    else .complete
  | .error => .err
  | .suspend => .suspendedReportingPending
  | .suspendForOrder => .suspendedReportingPending
  | .yield => .internalErr

/-- at most `n` instructions of a deterministic VM: `inl` = still running, `inr` = terminal. -/
def advance {S R : Type} (step : S → Sum S R) : Nat → S → Sum S R
  | 0, s => .inl s
  | n + 1, s =>
    match step s with
    | .inl s' => advance step n s'
    | .inr r => .inr r

/-- drive the VM in chunks (the host pauses between chunks; read-only API calls in a pause do
not change the VM state). -/
def driveChunks {S R : Type} (step : S → Sum S R) : List Nat → S → Sum S R
  | [], s => .inl s
  | n :: t, s =>
    match advance step n s with
    | .inl s' => driveChunks step t s'
    | .inr r => .inr r

end TsrunVerif.Run
