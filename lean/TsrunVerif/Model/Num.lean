/-
M-Num — exact-arithmetic model of the Number ↔ text / integer conversions
(`/repo/src/value.rs`: `number_to_string`, `shortest_digits`, `layout_decimal`, `to_int32`,
`to_uint32`; `/repo/src/interpreter/builtins/number.rs`: `toFixed`, `toPrecision`,
`toExponential`, `exact_decimal`, `round_half_up`).

A finite non-zero double is `± m · 2^e` with `m : Nat`, `e : Int` decoded from its 64 bits.
Everything below is exact `Nat`/`Int` arithmetic; the Rust code obtains digits from
`core::fmt` (`{:e}` = shortest round-trip digits, `{:.N}` = exact expansion), which is a
*trusted parameter* of the implementation, compared differentially on every run.
-/
namespace TsrunVerif.Num

inductive F64 where
  | nan
  | inf (neg : Bool)
  | zero (neg : Bool)
  | fin (neg : Bool) (m : Nat) (e : Int)      -- value = (-1)^neg · m · 2^e, m > 0
  deriving Repr, DecidableEq, Inhabited

def decode (bits : Nat) : F64 :=
  let neg := bits / 2 ^ 63 % 2 == 1
  let ex : Nat := bits / 2 ^ 52 % 2048
  let fr : Nat := bits % 2 ^ 52
  if ex == 2047 then (if fr == 0 then .inf neg else .nan)
  else if ex == 0 then (if fr == 0 then .zero neg else .fin neg fr (-1074))
  else .fin neg (fr + 2 ^ 52) ((ex : Int) - 1075)

def pow10 (n : Nat) : Nat := 10 ^ n

/-- compare `a · 10^x` with `b · 10^y` (x, y integers) — exact. -/
def cmpScaled (a : Nat) (x : Int) (b : Nat) (y : Int) : Ordering :=
  if x ≥ y then compare (a * pow10 (x - y).toNat) b
  else compare a (b * pow10 (y - x).toNat)

/-- `v = N / D` as a pair (with `D` a power of two). -/
structure Rat2 where
  num : Nat
  den : Nat
  deriving Repr, Inhabited

/-- value, lower and upper end of the rounding interval of `m·2^e`, all over one denominator,
and whether the ends are included (mantissa even). -/
def interval (m : Nat) (e : Int) : Nat × Nat × Nat × Nat × Bool :=
  -- lower gap is halved exactly at a binade boundary above the minimum exponent
  let lowGap := if m == 2 ^ 52 && e > -1074 then 1 else 2
  let s := e - 2
  if s ≥ 0 then
    let k := 2 ^ s.toNat
    (4 * m * k, (4 * m - lowGap) * k, (4 * m + 2) * k, 1, m % 2 == 0)
  else
    (4 * m, 4 * m - lowGap, 4 * m + 2, 2 ^ (-s).toNat, m % 2 == 0)

/-- number of decimal digits of the integer part position: `10^(p-1) ≤ V/D < 10^p`. -/
def decPoint (v d : Nat) : Int :=
  -- start from an under-estimate and walk up; `v/d` and `10^p` compared exactly
  let est : Int := ((v.log2 : Int) - (d.log2 : Int)) * 30103 / 100000 - 2
  let rec go (fuel : Nat) (p : Int) : Int :=
    match fuel with
    | 0 => p
    | fuel + 1 =>
      -- v/d < 10^p  ?
      if cmpScaled v 0 d p == .lt then p else go fuel (p + 1)
  go 8 est

def inInterval (c : Nat) (x : Int) (lo hi d : Nat) (incl : Bool) : Bool :=
  -- lo/d  <(=)  c·10^x  <(=)  hi/d      ⇔   lo <(=) c·d·10^x <(=) hi
  let cl := cmpScaled (c * d) x lo 0
  let ch := cmpScaled (c * d) x hi 0
  (cl == .gt || (incl && cl == .eq)) && (ch == .lt || (incl && ch == .eq))

/-- |c·10^x − v/d| compared for two candidates: returns true if `c1` is to be taken.  An exact tie
goes to the candidate whose last digit is even, as ECMAScript's Number::toString prescribes
(`core::fmt`'s shortest mode takes the upper one; `shortest_digits` in src/value.rs corrects that). -/
def closer (c1 c2 : Nat) (x : Int) (v d : Nat) : Bool :=
  -- c1 = floor candidate ≤ v/d ≤ c2 = c1+1 :  (v/d − c1·10^x)  vs  (c2·10^x − v/d)
  -- ⇔ 2·v  vs  (c1+c2)·d·10^x
  match cmpScaled (2 * v) 0 ((c1 + c2) * d) x with
  | .lt => true
  | .gt => false
  | .eq => c1 % 2 == 0

def stripZeros (c : Nat) (fuel : Nat) : Nat :=
  match fuel with
  | 0 => c
  | f + 1 => if c != 0 && c % 10 == 0 then stripZeros (c / 10) f else c

def natDigits (n : Nat) : List Nat := (Nat.toDigits 10 n).map (fun ch => ch.toNat - 48)

/-- shortest digits: smallest `k` such that some `k`-digit decimal lies in the rounding
interval; among those the one closest to the value.  Returns digits and `point`
(`value ≈ 0.d₁…d_k × 10^point`).  Falls back to the exact expansion (never needed: 17 digits
always suffice; the driver reports if it is ever used). -/
def shortest (m : Nat) (e : Int) : List Nat × Int × Bool :=
  let (v, lo, hi, d, incl) := interval m e
  let p := decPoint v d
  let rec go (fuel : Nat) (k : Nat) : Option (Nat × Int) :=
    match fuel with
    | 0 => none
    | fuel + 1 =>
      -- candidates c·10^(p-k) with c = floor(v/d · 10^(k-p)) and c+1
      let x : Int := p - k
      let c1 := if x ≥ 0 then v / (d * pow10 x.toNat) else v * pow10 (-x).toNat / d
      let c2 := c1 + 1
      let ok1 := c1 != 0 && inInterval c1 x lo hi d incl
      let ok2 := inInterval c2 x lo hi d incl
      if ok1 && ok2 then some (if closer c1 c2 x v d then c1 else c2, x)
      else if ok1 then some (c1, x)
      else if ok2 then some (c2, x)
      else go fuel (k + 1)
  match go 17 1 with
  | some (c, x) =>
    let ds := natDigits (stripZeros c 400)
    -- value = c·10^x ; written 0.d1…dj × 10^point  ⇒ point = (#digits of c) + x
    (ds, (natDigits c).length + x, false)
  | none =>
    -- exact expansion
    if e ≥ 0 then
      let n := m * 2 ^ e.toNat
      (natDigits (stripZeros n 400), (natDigits n).length, true)
    else
      let k := (-e).toNat
      let n := m * 5 ^ k
      (natDigits (stripZeros n 1200), ((natDigits n).length : Int) - k, true)

def digitChar (d : Nat) : Char := Char.ofNat (48 + d)

def digitsStr (ds : List Nat) : List Char := ds.map digitChar

def zeros (n : Nat) : List Char := List.replicate n '0'

/-- `layout_decimal` of value.rs / Number::toString steps 5–10. -/
def layout (ds : List Nat) (point : Int) : List Char :=
  let k : Int := ds.length
  if k ≤ point ∧ point ≤ 21 then digitsStr ds ++ zeros (point - k).toNat
  else if 0 < point ∧ point ≤ 21 then
    digitsStr (ds.take point.toNat) ++ '.' :: digitsStr (ds.drop point.toNat)
  else if -6 < point ∧ point ≤ 0 then
    '0' :: '.' :: zeros (-point).toNat ++ digitsStr ds
  else
    let ex := point - 1
    let sign := if ex < 0 then '-' else '+'
    let exs := (Nat.toDigits 10 ex.natAbs)
    match ds with
    | [] => []
    | [d] => digitChar d :: 'e' :: sign :: exs
    | d :: rest => digitChar d :: '.' :: digitsStr rest ++ 'e' :: sign :: exs

def numberToString (x : F64) : List Char :=
  match x with
  | .nan => "NaN".toList
  | .inf false => "Infinity".toList
  | .inf true => "-Infinity".toList
  | .zero _ => "0".toList
  | .fin neg m e =>
    let (ds, point, _) := shortest m e
    (if neg then ['-'] else []) ++ layout ds point

/-! ### integer conversions -/

/-- truncation toward zero of `± m·2^e` as an integer. -/
def truncInt (neg : Bool) (m : Nat) (e : Int) : Int :=
  let mag : Nat := if e ≥ 0 then m * 2 ^ e.toNat else m / 2 ^ (-e).toNat
  if neg then -(mag : Int) else mag

def toUint32Int (z : Int) : Int := z % 4294967296

def toInt32Int (z : Int) : Int :=
  let r := z % 4294967296
  if r ≥ 2147483648 then r - 4294967296 else r

def toInt32 (x : F64) : Int :=
  match x with
  | .fin neg m e => toInt32Int (truncInt neg m e)
  | _ => 0

def toUint32 (x : F64) : Int :=
  match x with
  | .fin neg m e => toUint32Int (truncInt neg m e)
  | _ => 0

/-- the six binary bitwise operators on ToInt32/ToUint32 operands, shift counts mod 32. -/
def bitop (op : String) (a b : F64) : Int :=
  let x := toInt32 a
  let y := toInt32 b
  let c := (toUint32 b % 32).toNat
  -- two's complement: operate on the ToUint32 images, reinterpret as int32
  let ux := (toUint32 a).toNat
  let uy := (toUint32 b).toNat
  if op == "&" then toInt32Int (ux &&& uy : Nat)
  else if op == "|" then toInt32Int (ux ||| uy : Nat)
  else if op == "^" then toInt32Int (ux ^^^ uy : Nat)
  else if op == "<<" then toInt32Int (x * 2 ^ c)
  else if op == ">>" then x / 2 ^ c          -- Int `/` with a positive divisor is floor division
  else if op == ">>>" then toUint32 a / 2 ^ c
  else 0

/-! ### fixed / precision / exponential: exact expansion rounded half up -/

/-- exact decimal expansion: `m·2^e = N / 10^k`. -/
def exactScaled (m : Nat) (e : Int) : Nat × Nat :=
  if e ≥ 0 then (m * 2 ^ e.toNat, 0) else (m * 5 ^ (-e).toNat, (-e).toNat)

/-- `N / 10^k` rounded half up to `f` fraction digits: the integer `r` with value `r / 10^f`. -/
def roundFixed (n k f : Nat) : Nat :=
  if f ≥ k then n * pow10 (f - k)
  else (n + pow10 (k - f) / 2) / pow10 (k - f)

/-- print the integer `r` with `f` fraction digits. -/
def printFixed (r f : Nat) : List Char :=
  let ds := natDigits r
  let ds := if ds.length ≤ f then List.replicate (f + 1 - ds.length) 0 ++ ds else ds
  let ip := ds.take (ds.length - f)
  let fp := ds.drop (ds.length - f)
  if f == 0 then digitsStr ip else digitsStr ip ++ '.' :: digitsStr fp

def toFixed (x : F64) (f : Nat) : List Char :=
  match x with
  | .fin neg m e =>
    -- |x| ≥ 1e21 → Number::toString
    let big := (if e ≥ 0 then m * 2 ^ e.toNat else m / 2 ^ (-e).toNat) ≥ 10 ^ 21
    if big then numberToString x
    else
      let (n, k) := exactScaled m e
      (if neg then ['-'] else []) ++ printFixed (roundFixed n k f) f
  | .zero _ => printFixed 0 f
  | _ => numberToString x

/-- round `N/10^k` half up to `p` significant digits: returns (digits as Nat `c` with exactly
`p` digits, exponent `ex` with value ≈ c × 10^(ex − p + 1)). -/
def roundSig (n k p : Nat) : Nat × Int :=
  let len := (natDigits n).length       -- n has `len` digits, value = n·10^-k, exponent = len-1-k
  let c := if len ≤ p then n * pow10 (p - len) else (n + pow10 (len - p) / 2) / pow10 (len - p)
  let ex : Int := (len : Int) - 1 - k
  if c ≥ pow10 p then (c / 10, ex + 1) else (c, ex)

def printExp (c : Nat) (p : Nat) (ex : Int) : List Char :=
  let ds := natDigits c
  let ds := if ds.length < p then ds ++ List.replicate (p - ds.length) 0 else ds
  let sign := if ex < 0 then '-' else '+'
  let exs := Nat.toDigits 10 ex.natAbs
  match ds with
  | [] => []
  | [d] => digitChar d :: 'e' :: sign :: exs
  | d :: rest => digitChar d :: '.' :: digitsStr rest ++ 'e' :: sign :: exs

def toExponential (x : F64) (fd : Option Nat) : List Char :=
  match x with
  | .fin neg m e =>
    let sgn := if neg then ['-'] else []
    match fd with
    | some f =>
      let (n, k) := exactScaled m e
      let (c, ex) := roundSig n k (f + 1)
      sgn ++ printExp c (f + 1) ex
    | none =>
      let (ds, point, _) := shortest m e
      let c := ds.foldl (fun a d => a * 10 + d) 0
      sgn ++ printExp c ds.length (point - 1)
  | .zero _ =>
    match fd with
    | some f => printExp 0 (f + 1) 0
    | none => printExp 0 1 0
  | _ => numberToString x

def toPrecision (x : F64) (p : Nat) : List Char :=
  match x with
  | .fin neg m e =>
    let sgn := if neg then ['-'] else []
    let (n, k) := exactScaled m e
    let (c, ex) := roundSig n k p
    if ex < -6 ∨ ex ≥ p then sgn ++ printExp c p ex
    else
      -- fixed notation with p-1-ex fraction digits; value = c × 10^(ex-p+1)
      let f := ((p : Int) - 1 - ex).toNat
      sgn ++ printFixed c f
  | .zero _ => printFixed 0 (p - 1)
  | _ => numberToString x

/-! ### text → number: correctly rounded (round-half-even) conversion of a rational -/

/-- the double nearest to `num/den` (ties to even), as its 64-bit pattern (sign bit clear).
`num = 0` gives +0; overflow gives +∞. -/
def roundRat (num den : Nat) : Nat :=
  if num == 0 then 0 else
  -- choose e with 2^52 ≤ num / (den·2^e) < 2^53, clamped to the subnormal exponent
  let e0 : Int := (num.log2 : Int) - (den.log2 : Int) - 52
  let quot (e : Int) : Nat := if e ≥ 0 then num / (den * 2 ^ e.toNat) else num * 2 ^ (-e).toNat / den
  let e1 := if quot e0 ≥ 2 ^ 53 then e0 + 1 else if quot e0 < 2 ^ 52 then e0 - 1 else e0
  let e := if e1 < -1074 then -1074 else e1
  let q := quot e
  -- remainder comparison: num/(den·2^e) − q  vs 1/2
  let (n2, d2) : Nat × Nat := if e ≥ 0 then (num, den * 2 ^ e.toNat) else (num * 2 ^ (-e).toNat, den)
  let r := n2 - q * d2
  let q := match compare (2 * r) d2 with
    | .lt => q
    | .gt => q + 1
    | .eq => if q % 2 == 0 then q else q + 1
  let (q, e) := if q ≥ 2 ^ 53 then (q / 2, e + 1) else (q, e)
  if e > 971 then 2047 * 2 ^ 52
  else if q < 2 ^ 52 then q            -- subnormal (e = -1074) — or it rounded up to 2^52: handled below
  else ((e + 1075).toNat) * 2 ^ 52 + (q - 2 ^ 52)

/-- decimal `digits × 10^exp10` to the nearest double. -/
def decToBits (digits : Nat) (exp10 : Int) : Nat :=
  if exp10 ≥ 0 then roundRat (digits * pow10 exp10.toNat) 1 else roundRat digits (pow10 (-exp10).toNat)

def bitsOf (x : F64) : Nat :=
  match x with
  | .nan => 2047 * 2 ^ 52 + 2 ^ 51
  | .inf neg => (if neg then 2 ^ 63 else 0) + 2047 * 2 ^ 52
  | .zero neg => if neg then 2 ^ 63 else 0
  | .fin neg m e =>
    (if neg then 2 ^ 63 else 0) + (if m < 2 ^ 52 then m else ((e + 1075).toNat) * 2 ^ 52 + (m - 2 ^ 52))

/-- parse an unsigned StrDecimalLiteral `ddd[.ddd][e[+-]ddd]` (also `.5`, `5.`) → (digits, exp10). -/
def parseDecimal (s : List Char) : Option (Nat × Int) :=
  let isD (c : Char) := c.isDigit
  let ip := s.takeWhile isD
  let r1 := s.dropWhile isD
  let (fp, r2) := match r1 with
    | '.' :: t => (t.takeWhile isD, t.dropWhile isD)
    | _ => ([], r1)
  if ip.isEmpty && fp.isEmpty then none else
  let digs := (ip ++ fp).foldl (fun a c => a * 10 + (c.toNat - 48)) 0
  let fl : Int := fp.length
  match r2 with
  | [] => some (digs, -fl)
  | c :: t =>
    if c == 'e' || c == 'E' then
      let (neg, t) := match t with
        | '-' :: u => (true, u)
        | '+' :: u => (false, u)
        | _ => (false, t)
      if t.isEmpty || !t.all isD then none
      else
        let ex : Nat := t.foldl (fun a c => a * 10 + (c.toNat - 48)) 0
        some (digs, (if neg then -(ex : Int) else ex) - fl)
    else none

end TsrunVerif.Num
