/-
M-Roots — counter model of the scope-guard stack (`Interpreter::env_guards`) against the VM's
frames (`/repo/src/interpreter/mod.rs`: `push_scope`/`pop_scope`/`push_env_guard`/
`pop_env_guard`/`abandon_active_execution`; `/repo/src/interpreter/bytecode_vm.rs`:
`PushScope`/`PopScope`, `setup_trampoline_call`, `restore_from_trampoline_frame`,
`unwind_scopes_to` (break/continue/return into finally), `find_exception_handler`,
`handle_error_with_trampoline_unwind`).

State: `cur` = open block scopes of the running frame (`saved_env_stack.len()`), `frames` = open
block scopes of each suspended caller frame (innermost first), `guards` = `env_guards.len()`.
-/
namespace TsrunVerif.Roots

structure St where
  cur : Nat
  frames : List Nat
  guards : Nat
  deriving Repr, DecidableEq, Inhabited

def St.init : St := { cur := 0, frames := [], guards := 0 }

inductive Ev where
  | pushScope                  -- Op::PushScope
  | popScope                   -- Op::PopScope
  | call                       -- script-to-script call: new frame, one guard for its environment
  | ret                        -- return (from any block depth): leave the frame's scopes, pop its guard
  | leaveTo (d : Nat)          -- break / continue / entering a finally / catching in this frame: unwind to depth d
  | unwindFrame                -- exception propagating out of the current frame
  | uncaught                   -- no handler anywhere: the run ends
  deriving Repr, DecidableEq, Inhabited

def step (s : St) : Ev → St
  | .pushScope => { s with cur := s.cur + 1, guards := s.guards + 1 }
  | .popScope => if s.cur = 0 then s else { s with cur := s.cur - 1, guards := s.guards - 1 }
  | .call => { cur := 0, frames := s.cur :: s.frames, guards := s.guards + 1 }
  | .ret =>
    match s.frames with
    | c :: rest => { cur := c, frames := rest, guards := s.guards - s.cur - 1 }
    | [] => { s with cur := 0, guards := s.guards - s.cur }       -- top-level program ends
  | .leaveTo d => if d ≤ s.cur then { s with cur := d, guards := s.guards - (s.cur - d) } else s
  | .unwindFrame =>
    match s.frames with
    | c :: rest => { cur := c, frames := rest, guards := s.guards - s.cur - 1 }
    | [] => { s with cur := 0, guards := s.guards - s.cur }
  | .uncaught => { cur := 0, frames := [], guards := s.guards - s.cur - (s.frames.sum + s.frames.length) }

def run (s : St) (evs : List Ev) : St := evs.foldl step s

/-- guards that *should* be held: one per open scope of every frame, one per call frame. -/
def expected (s : St) : Nat := s.cur + s.frames.sum + s.frames.length

end TsrunVerif.Roots
