import TsrunVerif.Model.Roots
/-
M-Life — lifecycle model of one interpreter over several runs (`/repo/src/interpreter/mod.rs`:
`prepare`, `eval`, `step` (terminal results), `finalize_active_execution`,
`abandon_active_execution`).

The VM's activity inside a run is abstracted to M-Roots events (scopes / frames / guards) plus
`export` (a module body registering an export in the scratch map).  What must not leak from one
run into the next is exactly the state below; the global object is deliberately not part of it.
-/
namespace TsrunVerif.Life
open TsrunVerif.Roots

structure L where
  vm : St                 -- open scopes / frames / env_guards of the run in progress
  inModuleEnv : Bool      -- interp.env is a module environment (else: the scope the VM left it in)
  callStack : Nat         -- Interpreter::call_stack
  activeVm : Bool
  savedEnv : Bool         -- active_saved_env
  moduleEnv : Bool        -- active_module_env / active_module_path
  exports : Nat           -- scratch export map
  deriving Repr, DecidableEq, Inhabited

def L.init : L :=
  { vm := St.init, inModuleEnv := false, callStack := 0, activeVm := false, savedEnv := false, moduleEnv := false, exports := 0 }

inductive Ev where
  | prepare (isModule : Bool)
  | vm (e : Roots.Ev)       -- one VM event of the active run
  | export                  -- module body registers an export
  | complete                -- the VM finished: finalize_active_execution
  | error                   -- uncaught error reached the host
  deriving Repr, DecidableEq, Inhabited

/-- `abandon_active_execution`. -/
def abandon (_ : L) : L := L.init

def step (l : L) : Ev → L
  | .prepare m =>
    let l := if l.activeVm then abandon l else l
    { l with activeVm := true, savedEnv := m, moduleEnv := m, inModuleEnv := m }
  | .vm e =>
    if l.activeVm then
      let v := Roots.step l.vm e
      { l with vm := v, callStack := v.frames.length }
    else l
  | .export => if l.activeVm then { l with exports := l.exports + 1 } else l
  | .complete =>
    -- finalize: restore the saved environment, drain the export scratch map into the namespace
    if l.activeVm then
      { l with activeVm := false, savedEnv := false, moduleEnv := false, inModuleEnv := false, exports := 0 }
    else l
  | .error => abandon l

def run (l : L) (evs : List Ev) : L := evs.foldl step l

/-- nothing of a run is left. -/
def Rest (l : L) : Prop :=
  l.vm.cur = 0 ∧ l.vm.frames = [] ∧ l.vm.guards = 0 ∧ l.inModuleEnv = false ∧ l.callStack = 0 ∧
  l.activeVm = false ∧ l.savedEnv = false ∧ l.moduleEnv = false ∧ l.exports = 0

end TsrunVerif.Life
