/-
M-Iso — instances as deterministic machines without shared state, and address-keyed tables.

* An interpreter instance is a deterministic machine `step : S → A → S × O` (every model of this
  project is such a function).  Two instances in one process are the product machine; the code
  fact that makes this the right model — no process-global mutable state — is re-extracted
  from the Rust sources on every run (`Gen/Globals.lean`, see `Props/C12.lean`).
* Tables keyed by addresses (`VarKey` = interned-string pointer, `promise_ids` = `Gc` pointer):
  `insert` / `get` / `remove` / `contains` on an association list.
-/
namespace TsrunVerif.Iso

/-- run one instance. -/
def runSolo {S A O : Type} (step : S → A → S × O) : S → List A → S × List O
  | s, [] => (s, [])
  | s, a :: t => ((runSolo step (step s a).1 t).1, (step s a).2 :: (runSolo step (step s a).1 t).2)

/-- run two instances interleaved: each action is tagged with the instance it belongs to. -/
def runProd {S A O : Type} (step : S → A → S × O) : S × S → List (Bool × A) → (S × S) × List (Bool × O)
  | p, [] => (p, [])
  | (s1, s2), (true, a) :: t =>
    ((runProd step ((step s1 a).1, s2) t).1, (true, (step s1 a).2) :: (runProd step ((step s1 a).1, s2) t).2)
  | (s1, s2), (false, a) :: t =>
    ((runProd step (s1, (step s2 a).1) t).1, (false, (step s2 a).2) :: (runProd step (s1, (step s2 a).1) t).2)

def proj {X : Type} (b : Bool) (l : List (Bool × X)) : List X := (l.filter (fun p => p.1 == b)).map (·.2)

/-! address-keyed table -/
inductive TOp (K V : Type) where
  | insert (k : K) (v : V)
  | get (k : K)
  | remove (k : K)
  | contains (k : K)

inductive TOut (V : Type) where
  | unit
  | val (v : Option V)
  | bool (b : Bool)
  deriving DecidableEq

def tstep {K V : Type} [DecidableEq K] (t : List (K × V)) : TOp K V → List (K × V) × TOut V
  | .insert k v => ((k, v) :: t.filter (fun p => p.1 ≠ k), .unit)
  | .get k => (t, .val ((t.find? (fun p => p.1 = k)).map (·.2)))
  | .remove k => (t.filter (fun p => p.1 ≠ k), .unit)
  | .contains k => (t, .bool (t.any (fun p => p.1 = k)))

def trun {K V : Type} [DecidableEq K] : List (K × V) → List (TOp K V) → List (TOut V)
  | _, [] => []
  | t, op :: rest => (tstep t op).2 :: trun (tstep t op).1 rest

def TOp.rename {K K' V : Type} (ρ : K → K') : TOp K V → TOp K' V
  | .insert k v => .insert (ρ k) v
  | .get k => .get (ρ k)
  | .remove k => .remove (ρ k)
  | .contains k => .contains (ρ k)

end TsrunVerif.Iso
