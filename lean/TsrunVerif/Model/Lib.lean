/-!
# M-Lib — index arithmetic of the array / string built-ins

ECMA-262 defines every index-taking entry point of `Array.prototype` and `String.prototype`
through the same few steps: `ToIntegerOrInfinity(arg)`, then a *relative index* (negative counts
from the end) clamped to `[0, len]`.  This file states those steps once (`toIntOrInf`, `relIndex`,
`clampIndex`) and defines the entry points on `List α` / `List Char` exactly as the specification
composes them; `src/interpreter/builtins/array.rs` and `string.rs` are compared with it on every
list up to a length and every argument of the boundary set (C01 correspondence).

Core Lean only.
-/
namespace TsrunVerif.Lib

/-- an argument after `ToNumber`, as far as index arithmetic can tell values apart -/
inductive Arg where
  | undef                     -- argument absent / `undefined`
  | nan
  | ninf | pinf
  | int (i : Int)             -- an integral number (−0 is `int 0`: it behaves as 0 here)
  | half (i : Int)            -- `i + 0.5`: a non-integral number between `i` and `i + 1`
  deriving Repr, DecidableEq, Inhabited

/-- extended integers: the range of `ToIntegerOrInfinity` -/
inductive IntInf where
  | ninf | fin (i : Int) | pinf
  deriving Repr, DecidableEq, Inhabited

/-- `ToIntegerOrInfinity` (ECMA-262 7.1.5): NaN ↦ 0, ±∞ stay, everything else truncates towards zero;
    `undefined` converts to NaN first -/
def toIntOrInf : Arg → IntInf
  | .undef => .fin 0
  | .nan => .fin 0
  | .ninf => .ninf
  | .pinf => .pinf
  | .int i => .fin i
  | .half i => .fin (if i < 0 then i + 1 else i)      -- trunc (i + 0.5)

/-- relative index clamped to `[0, len]` (the `relativeStart` / `relativeEnd` steps of slice, splice,
    fill, copyWithin, …): `−∞ ↦ 0`, negative `k ↦ max (len + k) 0`, otherwise `min k len` -/
def relIndex (len : Nat) : IntInf → Nat
  | .ninf => 0
  | .pinf => len
  | .fin k => if k < 0 then (len + k).toNat else min k.toNat len

/-- clamp to `[0, len]` without counting from the end (substring, padStart's fill length, …) -/
def clampIndex (len : Nat) : IntInf → Nat
  | .ninf => 0
  | .pinf => len
  | .fin k => min k.toNat len          -- `Int.toNat` of a negative number is 0

/-- start index: `relIndex` of the converted argument (absent ↦ 0) -/
def relStart (len : Nat) (a : Arg) : Nat := relIndex len (toIntOrInf a)

/-- end index: absent ↦ `len`, otherwise `relIndex` -/
def relEnd (len : Nat) : Arg → Nat
  | .undef => len
  | a => relIndex len (toIntOrInf a)

/-! ### Array.prototype (on lists) -/

/-- `slice(start, end)` (23.1.3.28) -/
def slice {α : Type} (l : List α) (s e : Arg) : List α :=
  let k := relStart l.length s
  let f := relEnd l.length e
  (l.drop k).take (f - k)

/-- `at(index)` (23.1.3.1): `none` is `undefined` -/
def at_ {α : Type} (l : List α) (i : Arg) : Option α :=
  match toIntOrInf i with
  | .fin k => if k < 0 then (if (l.length : Int) + k < 0 then none else l[((l.length : Int) + k).toNat]?) else l[k.toNat]?
  | _ => none

/-- `actualDeleteCount` of splice / toSpliced (23.1.3.31 steps 8-10): no arguments at all ↦ 0,
    only `start` ↦ everything from `start`, otherwise `deleteCount` clamped to `[0, len − start]` -/
def deleteCount (len start : Nat) (startGiven : Bool) (dc : Option Arg) : Nat :=
  if !startGiven then 0 else
  match dc with
  | none => len - start
  | some a => clampIndex (len - start) (toIntOrInf a)

/-- relative start of splice: absent ↦ 0 -/
def spliceStart (len : Nat) : Option Arg → Nat
  | some a => relStart len a
  | none => 0

/-- `splice(start, deleteCount, ...items)`: (removed elements, array afterwards) -/
def splice {α : Type} (l : List α) (start : Option Arg) (dc : Option Arg) (items : List α) : List α × List α :=
  let s := spliceStart l.length start
  let d := deleteCount l.length s start.isSome dc
  ((l.drop s).take d, l.take s ++ items ++ l.drop (s + d))

/-- `fill(value, start, end)` (23.1.3.7) -/
def fill {α : Type} (l : List α) (v : α) (s e : Arg) : List α :=
  let k := relStart l.length s
  let f := relEnd l.length e
  l.take k ++ List.replicate (f - k) v ++ l.drop (max k f)

/-- `copyWithin(target, start, end)` (23.1.3.4): the copy reads the ORIGINAL elements -/
def copyWithin {α : Type} (l : List α) (t s e : Arg) : List α :=
  let to := relStart l.length t
  let from_ := relStart l.length s
  let fin := relEnd l.length e
  let count := min (fin - from_) (l.length - to)
  l.take to ++ (l.drop from_).take count ++ l.drop (to + count)

/-- the index `with` and `at` address: negative counts from the end (no clamping) -/
def actualIndex (len : Nat) (k : Int) : Int := if k < 0 then (len : Int) + k else k

/-- `with(index, value)` (23.1.3.39): `none` is the RangeError -/
def with_ {α : Type} (l : List α) (i : Arg) (v : α) : Option (List α) :=
  match toIntOrInf i with
  | .fin k =>
    if actualIndex l.length k < 0 ∨ actualIndex l.length k ≥ l.length then none
    else some (l.set (actualIndex l.length k).toNat v)
  | _ => none

/-- first index `≥ from` whose element satisfies `p` -/
def findFrom {α : Type} (p : α → Bool) : List α → Nat → Nat → Option Nat
  | [], _, _ => none
  | x :: xs, i, from_ => if i ≥ from_ && p x then some i else findFrom p xs (i + 1) from_

/-- `indexOf(x, fromIndex)` (23.1.3.17) with equality `eq` (IsStrictlyEqual; `includes` passes SameValueZero):
    `fromIndex = +∞` or `≥ len` finds nothing, negative counts from the end -/
def indexOf {α : Type} (eq : α → α → Bool) (l : List α) (x : α) (from_ : Arg) : Option Nat :=
  match toIntOrInf from_ with
  | .pinf => none
  | n => findFrom (eq x) l 0 (relIndex l.length n)

/-- `lastIndexOf(x, fromIndex)` (23.1.3.20): absent ↦ `len − 1`; `−∞` finds nothing; negative counts from the end -/
def lastIndexOf {α : Type} (eq : α → α → Bool) (l : List α) (x : α) (from_ : Option Arg) : Option Nat :=
  let last : Option Nat :=                      -- the largest index to look at
    match from_ with
    | none => if l.length = 0 then none else some (l.length - 1)
    | some a =>
      match toIntOrInf a with
      | .ninf => none
      | .pinf => if l.length = 0 then none else some (l.length - 1)
      | .fin k =>
        if k ≥ 0 then (if l.length = 0 then none else some (min k.toNat (l.length - 1)))
        else if (l.length : Int) + k < 0 then none else some ((l.length : Int) + k).toNat
  match last with
  | none => none
  | some m =>
    -- the last match among the first m+1 elements
    ((l.take (m + 1)).zipIdx.filter (fun p => eq x p.1)).getLast?.map (·.2)

/-! ### String.prototype (on lists of characters) -/

/-- `substring(start, end)` (22.1.3.25): both clamped to `[0, len]` (NaN ↦ 0), then ordered -/
def substring (s : List Char) (a b : Arg) : List Char :=
  let i := clampIndex s.length (toIntOrInf a)
  let j := match b with | .undef => s.length | b => clampIndex s.length (toIntOrInf b)
  (s.drop (min i j)).take (max i j - min i j)

/-- `substr(start, length)` (B.2.2.1) -/
def substr (s : List Char) (a : Arg) (len : Arg) : List Char :=
  let i := relStart s.length a
  let n := match len with | .undef => s.length | l => clampIndex s.length (toIntOrInf l)
  (s.drop i).take (min n (s.length - i))

/-- `String.prototype.slice` is the list `slice` -/
def strSlice (s : List Char) (a b : Arg) : List Char := slice s a b

/-- `charAt(pos)` (22.1.3.2): out of range ↦ the empty string; no counting from the end -/
def charAt (s : List Char) (p : Arg) : List Char :=
  match toIntOrInf p with
  | .fin k => if k < 0 then [] else (match s[k.toNat]? with | some c => [c] | none => [])
  | _ => []

/-- `padStart(maxLength, fill)` / `padEnd` (22.1.3.16-17): the filler repeated and truncated -/
def padding (len : Nat) (maxLength : Arg) (fillStr : List Char) : List Char :=
  match toIntOrInf maxLength with
  | .fin k =>
    if k.toNat ≤ len ∨ fillStr = [] then []
    else
      let need := k.toNat - len
      ((List.replicate (need / fillStr.length + 1) fillStr).flatten).take need
  | _ => []          -- −∞ pads nothing; +∞ is a RangeError in the implementation (allocation limit)

def padStart (s : List Char) (maxLength : Arg) (fillStr : List Char) : List Char :=
  padding s.length maxLength fillStr ++ s
def padEnd (s : List Char) (maxLength : Arg) (fillStr : List Char) : List Char :=
  s ++ padding s.length maxLength fillStr

/-- `repeat(count)` (22.1.3.18): `none` is the RangeError (negative or infinite count) -/
def repeat_ (s : List Char) (c : Arg) : Option (List Char) :=
  match toIntOrInf c with
  | .fin k => if k < 0 then none else some ((List.replicate k.toNat s).flatten)
  | _ => none

end TsrunVerif.Lib
