import TsrunVerif.Model.RegAlloc

/-!
M-Compile — the expression / statement compiler (`/repo/src/compiler/compile_expr.rs`,
`compile_stmt.rs`, `builder.rs`) and the register VM (`/repo/src/interpreter/bytecode_vm.rs`) for the
side-effecting core of the language: literals, variables, unary / binary operators, the
short-circuit operators `&&` `||` `??`, `?:`, the comma operator, assignment to a variable in all its
forms (`=`, `+=` …, `&&=` `||=` `??=`), `++`/`--`, expression statements, `if`, `while`, `do-while`
and statement lists.

`compileE` / `compileS` mirror the Rust code line by line: registers come from the real allocator
model (`RegAlloc.alloc` / `free`), jumps are emitted with target 0 and patched afterwards
(`emit_jump_if_false` … `patch_jump`).  The correspondence check compares the instruction listing
this model produces with the listing the real `Compiler::compile_statement` produces, instruction by
instruction.

`evalE` / `evalS` are the reference semantics (ECMAScript's evaluation order, written directly);
`step` is the VM.  Values and operator semantics are parameters (`Sem`): the theorems hold for
every value domain, the driver instantiates them with M-Ops.
-/
namespace TsrunVerif.Compile

open TsrunVerif.RegAlloc

abbrev Reg := Nat

inductive UnOp where
  | neg | plus | not | bitNot | void | typeof
  deriving Repr, DecidableEq, Inhabited

inductive BinOp where
  | add | sub | mul | div | mod | exp | eq | notEq | strictEq | strictNotEq | lt | ltEq | gt | gtEq
  | bitAnd | bitOr | bitXor | lShift | rShift | urShift | in_ | instanceof
  deriving Repr, DecidableEq, Inhabited

inductive LogOp where
  | and | or | nullish
  deriving Repr, DecidableEq, Inhabited

inductive AsgOp where
  | assign
  | bin (op : BinOp)
  | andA | orA | nullishA
  deriving Repr, DecidableEq, Inhabited

inductive Lit where
  | null | undef
  | bool (b : Bool)
  | num (z : Int)
  | str (s : String)
  deriving Repr, DecidableEq, Inhabited

inductive Expr where
  | lit (l : Lit)
  | var (x : String)
  | un (op : UnOp) (e : Expr)
  | bin (op : BinOp) (a b : Expr)
  | log (op : LogOp) (a b : Expr)
  | cond (c t f : Expr)
  | asg (x : String) (op : AsgOp) (e : Expr)
  | seq (a b : Expr)
  | upd (x : String) (inc : Bool) (pre : Bool)
  deriving Repr, Inhabited

inductive Stmt where
  | expr (e : Expr)
  | ite (c : Expr) (t : Stmt) (f : Option Stmt)
  | while_ (c : Expr) (body : Stmt)
  | doWhile (body : Stmt) (c : Expr)
  | block (ss : List Stmt)      -- `{ … }` without lexical declarations
  | empty
  | throw_ (e : Expr)
  | tryCatch (body handler : List Stmt)     -- `try { … } catch { … }` (no binding, no finally)
  deriving Repr, Inhabited

/-- the instructions the modelled constructs compile to (`Op` of `bytecode.rs`, constants resolved) -/
inductive Op where
  | loadNull (dst : Reg)
  | loadUndef (dst : Reg)
  | loadBool (dst : Reg) (b : Bool)
  | loadInt (dst : Reg) (z : Int)
  | loadConstNum (dst : Reg) (z : Int)
  | loadConstStr (dst : Reg) (s : String)
  | getVar (dst : Reg) (x : String)
  | tryGetVar (dst : Reg) (x : String)
  | setVar (x : String) (src : Reg)
  | move (dst src : Reg)
  | un (op : UnOp) (dst src : Reg)
  | bin (op : BinOp) (dst l r : Reg)
  | jump (t : Nat)
  | jumpIfTrue (c : Reg) (t : Nat)
  | jumpIfFalse (c : Reg) (t : Nat)
  | jumpIfNotNullish (c : Reg) (t : Nat)
  | pushScope
  | popScope
  | pushTry (catchTarget : Nat)
  | popTry
  | throw_ (src : Reg)
  | halt
  deriving Repr, DecidableEq, Inhabited

/-! ### the compiler, as written in Rust -/

/-- `BytecodeBuilder`: the code emitted so far and the register allocator -/
structure B where
  code : List Op
  ra : RA
  deriving Repr, Inhabited

def B.emit (b : B) (op : Op) : B := { b with code := b.code ++ [op] }

def B.alloc (b : B) : Option (Reg × B) :=
  match RegAlloc.alloc b.ra with
  | some (r, ra) => some (r, { b with ra := ra })
  | none => none

def B.free (b : B) (r : Reg) : B := { b with ra := RegAlloc.free b.ra r }

def retarget (op : Op) (t : Nat) : Op :=
  match op with
  | .jump _ => .jump t
  | .jumpIfTrue c _ => .jumpIfTrue c t
  | .jumpIfFalse c _ => .jumpIfFalse c t
  | .jumpIfNotNullish c _ => .jumpIfNotNullish c t
  | op => op

/-- `patch_jump`: the placeholder at `idx` now jumps to the current end of the code -/
def B.patch (b : B) (idx : Nat) : B :=
  { b with code := b.code.modify idx (fun op => retarget op b.code.length) }

/-- `patch_jump_to` -/
def B.patchTo (b : B) (idx target : Nat) : B :=
  { b with code := b.code.modify idx (fun op => retarget op target) }

/-- `patch_try_targets` (no finally block: `finally_target` stays 0) -/
def B.patchTry (b : B) (idx catchTarget : Nat) : B :=
  { b with code := b.code.modify idx (fun op => match op with | .pushTry _ => .pushTry catchTarget | op => op) }

/-- `compile_literal` with `emit_load_number` -/
def litOp (dst : Reg) : Lit → Op
  | .null => .loadNull dst
  | .undef => .loadUndef dst
  | .bool b => .loadBool dst b
  | .num z => if -128 ≤ z ∧ z ≤ 127 then .loadInt dst z else .loadConstNum dst z
  | .str s => .loadConstStr dst s

def skipOp (op : LogOp) (c : Reg) : Op :=
  match op with
  | .and => .jumpIfFalse c 0
  | .or => .jumpIfTrue c 0
  | .nullish => .jumpIfNotNullish c 0

/-- `typeof x` with `x` an identifier is compiled (and evaluated) specially -/
def typeofVar? : UnOp → Expr → Option String
  | .typeof, .var x => some x
  | _, _ => none

/-- `compile_expression` -/
def compileE : Expr → Reg → B → Option B
  | .lit l, dst, b => some (b.emit (litOp dst l))
  | .var x, dst, b => some (b.emit (.getVar dst x))
  | .un op e, dst, b => do
      let (src, b) ← b.alloc
      let b ← (match typeofVar? op e with
        | some x => some (b.emit (.tryGetVar src x))     -- `typeof undeclared` must not throw
        | none => compileE e src b)
      let b := b.emit (.un op dst src)
      some (b.free src)
  | .bin op l r, dst, b => do
      let (lr, b) ← b.alloc
      let b ← compileE l lr b
      let (rr, b) ← b.alloc
      let b ← compileE r rr b
      let b := b.emit (.bin op dst lr rr)
      some ((b.free rr).free lr)
  | .log op l r, dst, b => do
      let b ← compileE l dst b
      let idx := b.code.length
      let b := b.emit (skipOp op dst)
      let b ← compileE r dst b
      some (b.patch idx)
  | .cond c t f, dst, b => do
      let (tr, b) ← b.alloc
      let b ← compileE c tr b
      let toAlt := b.code.length
      let b := b.emit (.jumpIfFalse tr 0)
      let b := b.free tr
      let b ← compileE t dst b
      let toEnd := b.code.length
      let b := b.emit (.jump 0)
      let b := b.patch toAlt
      let b ← compileE f dst b
      some (b.patch toEnd)
  | .asg x .assign e, dst, b => do
      let b ← compileE e dst b
      some (b.emit (.setVar x dst))
  | .asg x (.bin op) e, dst, b => do
      let b := b.emit (.getVar dst x)
      let (rr, b) ← b.alloc
      let b ← compileE e rr b
      let b := b.emit (.bin op dst dst rr)
      let b := b.free rr
      some (b.emit (.setVar x dst))
  | .asg x .andA e, dst, b => do
      let b := b.emit (.getVar dst x)
      let idx := b.code.length
      let b := b.emit (.jumpIfFalse dst 0)
      let b ← compileE e dst b
      let b := b.patch idx
      some (b.emit (.setVar x dst))
  | .asg x .orA e, dst, b => do
      let b := b.emit (.getVar dst x)
      let idx := b.code.length
      let b := b.emit (.jumpIfTrue dst 0)
      let b ← compileE e dst b
      let b := b.patch idx
      some (b.emit (.setVar x dst))
  | .asg x .nullishA e, dst, b => do
      let b := b.emit (.getVar dst x)
      let idx := b.code.length
      let b := b.emit (.jumpIfNotNullish dst 0)
      let b ← compileE e dst b
      let b := b.patch idx
      some (b.emit (.setVar x dst))
  | .seq a c, dst, b => do
      let (tmp, b) ← b.alloc
      let b ← compileE a tmp b
      let b := b.free tmp
      compileE c dst b
  | .upd x inc false, dst, b => do
      let b := b.emit (.getVar dst x)
      let b := b.emit (.un .plus dst dst)
      let (orig, b) ← b.alloc
      let b := b.emit (.move orig dst)
      let (one, b) ← b.alloc
      let b := b.emit (.loadInt one 1)
      let b := b.emit (.bin (if inc then .add else .sub) dst dst one)
      let b := b.emit (.setVar x dst)
      let b := b.emit (.move dst orig)
      some ((b.free one).free orig)
  | .upd x inc true, dst, b => do
      let b := b.emit (.getVar dst x)
      let b := b.emit (.un .plus dst dst)
      let (one, b) ← b.alloc
      let b := b.emit (.loadInt one 1)
      let b := b.emit (.bin (if inc then .add else .sub) dst dst one)
      let b := b.free one
      some (b.emit (.setVar x dst))

mutual
/-- `compile_statement_impl` (`save` … `restore` around the statement) -/
def compileS : Stmt → B → Option B
  | s, b => do
      let b := { b with ra := RegAlloc.save b.ra }
      let b ← compileInner s b
      some { b with ra := RegAlloc.restore b.ra }
termination_by s => (sizeOf s, 1)

def compileInner : Stmt → B → Option B
  | .expr e, b => do
      let (dst, b) ← b.alloc
      let b ← compileE e dst b
      some (b.free dst)
  | .ite c t none, b => do
      let (tr, b) ← b.alloc
      let b ← compileE c tr b
      let toElse := b.code.length
      let b := b.emit (.jumpIfFalse tr 0)
      let b := b.free tr
      let b ← compileS t b
      some (b.patch toElse)
  | .ite c t (some f), b => do
      let (tr, b) ← b.alloc
      let b ← compileE c tr b
      let toElse := b.code.length
      let b := b.emit (.jumpIfFalse tr 0)
      let b := b.free tr
      let b ← compileS t b
      let toEnd := b.code.length
      let b := b.emit (.jump 0)
      let b := b.patch toElse
      let b ← compileS f b
      some (b.patch toEnd)
  | .while_ c body, b => do
      let start := b.code.length
      let (tr, b) ← b.alloc
      let b ← compileE c tr b
      let toEnd := b.code.length
      let b := b.emit (.jumpIfFalse tr 0)
      let b := b.free tr
      let b ← compileS body b
      let b := b.emit (.jump start)
      some (b.patch toEnd)
  | .doWhile body c, b => do
      let start := b.code.length
      let b ← compileS body b
      let (tr, b) ← b.alloc
      let b ← compileE c tr b
      let b := b.emit (.jumpIfTrue tr start)
      some (b.free tr)
  | .block ss, b => do
      let b := b.emit .pushScope
      let b ← compileL ss b
      some (b.emit .popScope)
  | .empty, b => some b
  | .throw_ e, b => do
      let (r, b) ← b.alloc
      let b ← compileE e r b
      let b := b.emit (.throw_ r)
      some (b.free r)
  | .tryCatch body handler, b => do
      let pushIdx := b.code.length
      let b := b.emit (.pushTry 0)
      let b := b.emit .pushScope                 -- compile_block
      let b ← compileL body b
      let b := b.emit .popScope
      let b := b.emit .popTry
      let afterTry := b.code.length
      let b := b.emit (.jump 0)
      let catchStart := b.code.length
      let b := b.emit .pushScope
      let b ← compileL handler b
      let b := b.emit .popScope
      let afterCatch := b.code.length
      let b := b.emit (.jump 0)
      let endOff := b.code.length
      let b := b.patchTo afterTry endOff
      let b := b.patchTo afterCatch endOff
      some (b.patchTry pushIdx catchStart)
termination_by s => (sizeOf s, 0)

def compileL : List Stmt → B → Option B
  | [], b => some b
  | s :: rest, b => do
      let b ← compileS s b
      compileL rest b
termination_by ss => (sizeOf ss, 0)
end

/-- `Compiler::compile_statement`: one statement and `Halt` -/
def compileProgram (s : Stmt) : Option (List Op) :=
  (compileS s { code := [], ra := RA.init }).map (fun b => b.code ++ [.halt])

/-! ### values, environments, reference semantics -/

/-- the value domain and the meaning of the operators (parameters of every theorem) -/
structure Sem (V Err : Type) where
  lit : Lit → V
  truthy : V → Bool
  nullish : V → Bool
  un : UnOp → V → Except Err V
  bin : BinOp → V → V → Except Err V
  refErr : String → Err
  ofVal : V → Err          -- `throw v`

abbrev Env (V : Type) := List (String × V)

def Env.get {V : Type} (env : Env V) (x : String) : Option V :=
  match env with
  | [] => none
  | (y, v) :: rest => if y = x then some v else Env.get rest x

def Env.set {V : Type} (env : Env V) (x : String) (v : V) : Option (Env V) :=
  match env with
  | [] => none
  | (y, w) :: rest => if y = x then some ((y, v) :: rest) else (Env.set rest x v).map ((y, w) :: ·)

/-- the result of evaluating: a value (and the environment after the side effects), or a throw -/
inductive Res (V Err : Type) (α : Type) where
  | ok (a : α) (env : Env V)
  | thrown (e : Err) (env : Env V)
  deriving Inhabited

section
variable {V Err : Type} (sem : Sem V Err)

def getVar (env : Env V) (x : String) : Res V Err V :=
  match env.get x with
  | some v => .ok v env
  | none => .thrown (sem.refErr x) env

def setVar (env : Env V) (x : String) (v : V) : Res V Err V :=
  match env.set x v with
  | some env' => .ok v env'
  | none => .thrown (sem.refErr x) env

def liftE (env : Env V) (r : Except Err V) : Res V Err V :=
  match r with
  | .ok v => .ok v env
  | .error e => .thrown e env

def skips (op : LogOp) (v : V) : Bool :=
  match op with
  | .and => !sem.truthy v
  | .or => sem.truthy v
  | .nullish => !sem.nullish v

/-- ECMAScript evaluation of an expression: operands left to right, the current value of the
    target of a compound assignment is read before the right-hand side is evaluated, the
    short-circuit forms evaluate (and assign) only when needed -/
def evalE : Expr → Env V → Res V Err V
  | .lit l, env => .ok (sem.lit l) env
  | .var x, env => getVar sem env x
  | .un op e, env =>
      match ((match typeofVar? op e with
        | some x => Res.ok ((env.get x).getD (sem.lit .undef)) env    -- an unresolvable reference is `undefined` here
        | none => evalE e env) : Res V Err V) with
      | .ok v env => liftE env (sem.un op v)
      | .thrown er env => .thrown er env
  | .bin op l r, env =>
      match evalE l env with
      | .ok a env =>
        match evalE r env with
        | .ok c env => liftE env (sem.bin op a c)
        | .thrown er env => .thrown er env
      | .thrown er env => .thrown er env
  | .log op l r, env =>
      match evalE l env with
      | .ok a env => if skips sem op a then .ok a env else evalE r env
      | .thrown er env => .thrown er env
  | .cond c t f, env =>
      match evalE c env with
      | .ok a env => if sem.truthy a then evalE t env else evalE f env
      | .thrown er env => .thrown er env
  | .asg x .assign e, env =>
      match evalE e env with
      | .ok v env => setVar sem env x v
      | .thrown er env => .thrown er env
  | .asg x (.bin op) e, env =>
      match getVar sem env x with
      | .ok a env =>
        match evalE e env with
        | .ok c env =>
          match sem.bin op a c with
          | .ok v => setVar sem env x v
          | .error er => .thrown er env
        | .thrown er env => .thrown er env
      | .thrown er env => .thrown er env
  | .asg x .andA e, env =>
      match getVar sem env x with
      | .ok a env =>
        if skips sem .and a then setVar sem env x a else
        match evalE e env with
        | .ok v env => setVar sem env x v
        | .thrown er env => .thrown er env
      | .thrown er env => .thrown er env
  | .asg x .orA e, env =>
      match getVar sem env x with
      | .ok a env =>
        if skips sem .or a then setVar sem env x a else
        match evalE e env with
        | .ok v env => setVar sem env x v
        | .thrown er env => .thrown er env
      | .thrown er env => .thrown er env
  | .asg x .nullishA e, env =>
      match getVar sem env x with
      | .ok a env =>
        if skips sem .nullish a then setVar sem env x a else
        match evalE e env with
        | .ok v env => setVar sem env x v
        | .thrown er env => .thrown er env
      | .thrown er env => .thrown er env
  | .seq a c, env =>
      match evalE a env with
      | .ok _ env => evalE c env
      | .thrown er env => .thrown er env
  | .upd x inc pre, env =>
      match getVar sem env x with
      | .ok a env =>
        match sem.un .plus a with
        | .ok n =>
          match sem.bin (if inc then .add else .sub) n (sem.lit (.num 1)) with
          | .ok v =>
            match setVar sem env x v with
            | .ok _ env => .ok (if pre then v else n) env
            | .thrown er env => .thrown er env
          | .error er => .thrown er env
        | .error er => .thrown er env
      | .thrown er env => .thrown er env

mutual
/-- statements; `none` = out of fuel (the loop did not finish within `fuel` iterations) -/
def evalS (fuel : Nat) : Stmt → Env V → Option (Res V Err Unit)
  | .expr e, env =>
      match evalE sem e env with
      | .ok _ env => some (.ok () env)
      | .thrown er env => some (.thrown er env)
  | .ite c t f, env =>
      match evalE sem c env with
      | .ok a env =>
        if sem.truthy a then evalS fuel t env
        else match f with
          | some f => evalS fuel f env
          | none => some (.ok () env)
      | .thrown er env => some (.thrown er env)
  | .while_ c body, env =>
      match fuel with
      | 0 => none
      | fuel + 1 =>
        match evalE sem c env with
        | .ok a env =>
          if sem.truthy a then
            match evalS fuel body env with
            | some (.ok _ env) => evalS fuel (.while_ c body) env
            | r => r
          else some (.ok () env)
        | .thrown er env => some (.thrown er env)
  | .doWhile body c, env =>
      match fuel with
      | 0 => none
      | fuel + 1 =>
        match evalS fuel body env with
        | some (.ok _ env) =>
          match evalE sem c env with
          | .ok a env => if sem.truthy a then evalS fuel (.doWhile body c) env else some (.ok () env)
          | .thrown er env => some (.thrown er env)
        | r => r
  | .block ss, env => evalL fuel ss env
  | .empty, env => some (.ok () env)
  | .throw_ e, env =>
      match evalE sem e env with
      | .ok v env => some (.thrown (sem.ofVal v) env)
      | .thrown er env => some (.thrown er env)
  | .tryCatch body handler, env =>
      match evalL fuel body env with
      | some (.thrown _ env) => evalL fuel handler env      -- the handler sees the side effects made before the throw
      | r => r
termination_by s => (fuel, sizeOf s)

def evalL (fuel : Nat) : List Stmt → Env V → Option (Res V Err Unit)
  | [], env => some (.ok () env)
  | s :: rest, env =>
      match evalS fuel s env with
      | some (.ok _ env) => evalL fuel rest env
      | r => r
termination_by ss => (fuel, sizeOf ss)
end

/-! ### the register VM -/

structure St (V : Type) where
  pc : Nat
  regs : Reg → V
  env : Env V
  hs : List Nat          -- the try stack: catch targets of the enclosing `try` statements, innermost first

def setReg (regs : Reg → V) (r : Reg) (v : V) : Reg → V := fun r' => if r' = r then v else regs r'

inductive Out (V Err : Type) where
  | next (s : St V)
  | halt (s : St V)
  | throw (e : Err) (s : St V)
  | fault

/-- one instruction of `execute_op` -/
def exec1 (op : Op) (s : St V) : Out V Err :=
  let adv (regs : Reg → V) : Out V Err := .next { s with pc := s.pc + 1, regs := regs }
  match op with
  | .loadNull d => adv (setReg s.regs d (sem.lit .null))
  | .loadUndef d => adv (setReg s.regs d (sem.lit .undef))
  | .loadBool d b => adv (setReg s.regs d (sem.lit (.bool b)))
  | .loadInt d z => adv (setReg s.regs d (sem.lit (.num z)))
  | .loadConstNum d z => adv (setReg s.regs d (sem.lit (.num z)))
  | .loadConstStr d t => adv (setReg s.regs d (sem.lit (.str t)))
  | .getVar d x =>
    match s.env.get x with
    | some v => adv (setReg s.regs d v)
    | none => .throw (sem.refErr x) s
  | .tryGetVar d x => adv (setReg s.regs d ((s.env.get x).getD (sem.lit .undef)))
  | .setVar x src =>
    match s.env.set x (s.regs src) with
    | some env' => .next { s with pc := s.pc + 1, env := env' }
    | none => .throw (sem.refErr x) s
  | .move d src => adv (setReg s.regs d (s.regs src))
  | .un op d src =>
    match sem.un op (s.regs src) with
    | .ok v => adv (setReg s.regs d v)
    | .error e => .throw e s
  | .bin op d l r =>
    match sem.bin op (s.regs l) (s.regs r) with
    | .ok v => adv (setReg s.regs d v)
    | .error e => .throw e s
  | .jump t => .next { s with pc := t }
  | .jumpIfTrue c t => .next { s with pc := if sem.truthy (s.regs c) then t else s.pc + 1 }
  | .jumpIfFalse c t => .next { s with pc := if sem.truthy (s.regs c) then s.pc + 1 else t }
  | .jumpIfNotNullish c t => .next { s with pc := if sem.nullish (s.regs c) then s.pc + 1 else t }
  | .pushScope => adv s.regs        -- a block without declarations: the new scope holds no binding
  | .popScope => adv s.regs
  | .pushTry t => .next { s with pc := s.pc + 1, hs := t :: s.hs }
  | .popTry => .next { s with pc := s.pc + 1, hs := s.hs.tail }
  | .throw_ r => .throw (sem.ofVal (s.regs r)) s
  | .halt => .halt s

/-- fetch and execute -/
def step (code : List Op) (s : St V) : Out V Err :=
  match code[s.pc]? with
  | none => .fault
  | some op => exec1 sem op s

/-- an instruction that throws transfers control to the innermost handler, if there is one -/
def stepH (code : List Op) (s : St V) : Out V Err :=
  match step sem code s with
  | .throw er s' =>
    match s'.hs with
    | t :: rest => .next { s' with pc := t, hs := rest }
    | [] => .throw er s'
  | o => o

/-- run at most `fuel` instructions -/
def run (code : List Op) (fuel : Nat) (s : St V) : Option (Out V Err) :=
  match fuel with
  | 0 => none
  | fuel + 1 =>
    match stepH sem code s with
    | .next s' => run code fuel s'
    | o => some o

end

end TsrunVerif.Compile

/-! ### the code the compiler emits, written structurally

`codeE e dst n base` is the instruction sequence `compileE e dst` appends when the next free register
is `n`, the free list is empty and the code emitted so far has length `base` (jump targets are
absolute).  `Lemmas/Compile.lean` proves that `compileE` emits exactly this. -/
namespace TsrunVerif.Compile

def codeE : Expr → Reg → Nat → Nat → Option (List Op)
  | .lit l, dst, _, _ => some [litOp dst l]
  | .var x, dst, _, _ => some [.getVar dst x]
  | .un op e, dst, n, base =>
      if n = 255 then none else
      match ((match typeofVar? op e with
        | some x => some [Op.tryGetVar n x]
        | none => codeE e n (n + 1) base) : Option (List Op)) with
      | none => none
      | some be => some (be ++ [.un op dst n])
  | .bin op l r, dst, n, base =>
      if n = 255 then none else
      match codeE l n (n + 1) base with
      | none => none
      | some bl =>
        if n + 1 = 255 then none else
        match codeE r (n + 1) (n + 2) (base + bl.length) with
        | none => none
        | some br => some (bl ++ br ++ [.bin op dst n (n + 1)])
  | .log op l r, dst, n, base =>
      match codeE l dst n base with
      | none => none
      | some bl =>
        match codeE r dst n (base + bl.length + 1) with
        | none => none
        | some br => some (bl ++ retarget (skipOp op dst) (base + bl.length + 1 + br.length) :: br)
  | .cond c t f, dst, n, base =>
      if n = 255 then none else
      match codeE c n (n + 1) base with
      | none => none
      | some bc =>
        match codeE t dst n (base + bc.length + 1) with
        | none => none
        | some bt =>
          match codeE f dst n (base + bc.length + 1 + bt.length + 1) with
          | none => none
          | some bf =>
            some (bc ++ .jumpIfFalse n (base + bc.length + 1 + bt.length + 1) ::
                    (bt ++ .jump (base + bc.length + 1 + bt.length + 1 + bf.length) :: bf))
  | .asg x .assign e, dst, n, base =>
      match codeE e dst n base with
      | none => none
      | some be => some (be ++ [.setVar x dst])
  | .asg x (.bin op) e, dst, n, base =>
      if n = 255 then none else
      match codeE e n (n + 1) (base + 1) with
      | none => none
      | some be => some (.getVar dst x :: (be ++ [.bin op dst dst n, .setVar x dst]))
  | .asg x .andA e, dst, n, base =>
      match codeE e dst n (base + 2) with
      | none => none
      | some be => some (.getVar dst x :: .jumpIfFalse dst (base + 2 + be.length) :: (be ++ [.setVar x dst]))
  | .asg x .orA e, dst, n, base =>
      match codeE e dst n (base + 2) with
      | none => none
      | some be => some (.getVar dst x :: .jumpIfTrue dst (base + 2 + be.length) :: (be ++ [.setVar x dst]))
  | .asg x .nullishA e, dst, n, base =>
      match codeE e dst n (base + 2) with
      | none => none
      | some be => some (.getVar dst x :: .jumpIfNotNullish dst (base + 2 + be.length) :: (be ++ [.setVar x dst]))
  | .seq a c, dst, n, base =>
      if n = 255 then none else
      match codeE a n (n + 1) base with
      | none => none
      | some ba =>
        match codeE c dst n (base + ba.length) with
        | none => none
        | some bc => some (ba ++ bc)
  | .upd x inc false, dst, n, _ =>
      if n = 255 then none else if n + 1 = 255 then none else
      some [.getVar dst x, .un .plus dst dst, .move n dst, .loadInt (n + 1) 1,
            .bin (if inc then .add else .sub) dst dst (n + 1), .setVar x dst, .move dst n]
  | .upd x inc true, dst, n, _ =>
      if n = 255 then none else
      some [.getVar dst x, .un .plus dst dst, .loadInt n 1, .bin (if inc then .add else .sub) dst dst n, .setVar x dst]

mutual
def codeS : Stmt → Nat → Nat → Option (List Op)
  | .expr e, n, base => if n = 255 then none else codeE e n (n + 1) base
  | .ite c t none, n, base =>
      if n = 255 then none else
      match codeE c n (n + 1) base with
      | none => none
      | some bc =>
        match codeS t n (base + bc.length + 1) with
        | none => none
        | some bt => some (bc ++ .jumpIfFalse n (base + bc.length + 1 + bt.length) :: bt)
  | .ite c t (some f), n, base =>
      if n = 255 then none else
      match codeE c n (n + 1) base with
      | none => none
      | some bc =>
        match codeS t n (base + bc.length + 1) with
        | none => none
        | some bt =>
          match codeS f n (base + bc.length + 1 + bt.length + 1) with
          | none => none
          | some bf =>
            some (bc ++ .jumpIfFalse n (base + bc.length + 1 + bt.length + 1) ::
                    (bt ++ .jump (base + bc.length + 1 + bt.length + 1 + bf.length) :: bf))
  | .while_ c body, n, base =>
      if n = 255 then none else
      match codeE c n (n + 1) base with
      | none => none
      | some bc =>
        match codeS body n (base + bc.length + 1) with
        | none => none
        | some bb => some (bc ++ .jumpIfFalse n (base + bc.length + 1 + bb.length + 1) :: (bb ++ [.jump base]))
  | .doWhile body c, n, base =>
      match codeS body n base with
      | none => none
      | some bb =>
        if n = 255 then none else
        match codeE c n (n + 1) (base + bb.length) with
        | none => none
        | some bc => some (bb ++ bc ++ [.jumpIfTrue n base])
  | .block ss, n, base =>
      match codeL ss n (base + 1) with
      | none => none
      | some bs => some (.pushScope :: (bs ++ [.popScope]))
  | .empty, _, _ => some []
  | .throw_ e, n, base =>
      if n = 255 then none else
      match codeE e n (n + 1) base with
      | none => none
      | some be => some (be ++ [.throw_ n])
  | .tryCatch body handler, n, base =>
      match codeL body n (base + 2) with
      | none => none
      | some bb =>
        match codeL handler n (base + 2 + bb.length + 3 + 1) with
        | none => none
        | some bh =>
          some (.pushTry (base + 2 + bb.length + 3) :: .pushScope ::
            (bb ++ .popScope :: .popTry :: .jump (base + 2 + bb.length + 3 + 1 + bh.length + 2) :: .pushScope ::
              (bh ++ [.popScope, .jump (base + 2 + bb.length + 3 + 1 + bh.length + 2)])))

def codeL : List Stmt → Nat → Nat → Option (List Op)
  | [], _, _ => some []
  | s :: rest, n, base =>
      match codeS s n base with
      | none => none
      | some b1 =>
        match codeL rest n (base + b1.length) with
        | none => none
        | some b2 => some (b1 ++ b2)
end

end TsrunVerif.Compile
