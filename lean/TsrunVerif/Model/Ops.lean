/-
M-Ops — ECMAScript's operators and coercions on primitive values.

Transcribed from the specification (ECMA-262: ToBoolean, ToNumber, ToString, typeof, unary + - !,
Number::add / subtract / multiply, IsLessThan, IsLooselyEqual, IsStrictlyEqual, the + operator),
over `undefined`, `null`, booleans, strings and the numbers NaN, ±Infinity, −0 and the integers
(where arithmetic is exact; results stay far below 2^53 for the generated operands).
Strings are ASCII (code unit order = code point order).  String→number covers the StringNumericLiteral
forms without fraction or exponent: optional whitespace, sign, decimal digits, `Infinity`, `0x` hex.
-/
namespace TsrunVerif.Ops

inductive Num where
  | nan
  | pinf
  | ninf
  | negz
  | int (z : Int)
  deriving Repr, DecidableEq, Inhabited

inductive V where
  | undef
  | null
  | bool (b : Bool)
  | num (n : Num)
  | str (s : String)
  deriving Repr, DecidableEq, Inhabited

def typeOf : V → String
  | .undef => "undefined"
  | .null => "object"
  | .bool _ => "boolean"
  | .num _ => "number"
  | .str _ => "string"

def toBoolean : V → Bool
  | .undef => false
  | .null => false
  | .bool b => b
  | .num .nan => false
  | .num .negz => false
  | .num (.int z) => z != 0
  | .num _ => true
  | .str s => s != ""

def isWs (c : Char) : Bool := c == ' ' || c == '\t' || c == '\n' || c == '\r'

def trimWs (cs : List Char) : List Char :=
  ((cs.dropWhile isWs).reverse.dropWhile isWs).reverse

def digitsVal (base : Nat) (cs : List Char) : Option Nat :=
  if cs.isEmpty then none else
  cs.foldl (fun acc c =>
    match acc with
    | none => none
    | some a =>
      let d := if c.isDigit then some (c.toNat - 48)
               else if 'a' ≤ c ∧ c ≤ 'f' then some (c.toNat - 87)
               else if 'A' ≤ c ∧ c ≤ 'F' then some (c.toNat - 55)
               else none
      match d with
      | some d => if d < base then some (a * base + d) else none
      | none => none) (some 0)

/-- StringToNumber (without fractions and exponents) -/
def strToNum (s : String) : Num :=
  let t := trimWs s.toList
  if t.isEmpty then .int 0 else
  let (neg, body, signed) := match t with
    | '-' :: r => (true, r, true)
    | '+' :: r => (false, r, true)
    | r => (false, r, false)
  if body == "Infinity".toList then (if neg then .ninf else .pinf) else
  match body with
  | '0' :: x :: r =>
    if (x == 'x' || x == 'X') then
      (if signed then .nan else match digitsVal 16 r with | some n => .int n | none => .nan)
    else match digitsVal 10 body with
      | some n => if neg && n == 0 then .negz else .int (if neg then -(n : Int) else n)
      | none => .nan
  | _ => match digitsVal 10 body with
      | some n => if neg && n == 0 then .negz else .int (if neg then -(n : Int) else n)
      | none => .nan

def toNumber : V → Num
  | .undef => .nan
  | .null => .int 0
  | .bool b => .int (if b then 1 else 0)
  | .num n => n
  | .str s => strToNum s

def numToString : Num → String
  | .nan => "NaN"
  | .pinf => "Infinity"
  | .ninf => "-Infinity"
  | .negz => "0"
  | .int z => toString z

def toStr : V → String
  | .undef => "undefined"
  | .null => "null"
  | .bool b => toString b
  | .num n => numToString n
  | .str s => s

/-- sign of a number for the zero-result rules: true = negative -/
def isNeg : Num → Bool
  | .ninf => true
  | .negz => true
  | .int z => z < 0
  | _ => false

def isZero : Num → Bool
  | .negz => true
  | .int z => z == 0
  | _ => false

def neg : Num → Num
  | .nan => .nan
  | .pinf => .ninf
  | .ninf => .pinf
  | .negz => .int 0
  | .int z => if z == 0 then .negz else .int (-z)

def add : Num → Num → Num
  | .nan, _ => .nan
  | _, .nan => .nan
  | .pinf, .ninf => .nan
  | .ninf, .pinf => .nan
  | .pinf, _ => .pinf
  | _, .pinf => .pinf
  | .ninf, _ => .ninf
  | _, .ninf => .ninf
  | .negz, .negz => .negz
  | .negz, .int z => .int z
  | .int z, .negz => .int z
  | .int a, .int b => .int (a + b)

def sub (a b : Num) : Num := add a (neg b)

def mul : Num → Num → Num
  | .nan, _ => .nan
  | _, .nan => .nan
  | a, b =>
    let infinite (x : Num) := x == .pinf || x == .ninf
    let sgn := isNeg a != isNeg b
    if (infinite a && isZero b) || (isZero a && infinite b) then .nan
    else if infinite a || infinite b then (if sgn then .ninf else .pinf)
    else if isZero a || isZero b then (if sgn then .negz else .int 0)
    else match a, b with
      | .int x, .int y => .int (x * y)
      | _, _ => .nan

/-- `a < b` on numbers: `none` when a NaN is involved -/
def numLt : Num → Num → Option Bool
  | .nan, _ => none
  | _, .nan => none
  | a, b =>
    let rank (x : Num) : Int × Int := match x with
      | .ninf => (-1, 0)
      | .pinf => (1, 0)
      | .negz => (0, 0)
      | .int z => (0, z)
      | .nan => (0, 0)
    let (ra, va) := rank a
    let (rb, vb) := rank b
    some (ra < rb || (ra == rb && va < vb))

def strLt (a b : String) : Bool := a.toList < b.toList

/-- IsLessThan(a, b): `none` = undefined (a NaN was involved) -/
def lessThan (a b : V) : Option Bool :=
  match a, b with
  | .str x, .str y => some (strLt x y)
  | _, _ => numLt (toNumber a) (toNumber b)

def opLt (a b : V) : Bool := (lessThan a b).getD false
def opGt (a b : V) : Bool := (lessThan b a).getD false
def opLe (a b : V) : Bool := match lessThan b a with | some r => !r | none => false
def opGe (a b : V) : Bool := match lessThan a b with | some r => !r | none => false

def numEq : Num → Num → Bool
  | .nan, _ => false
  | _, .nan => false
  | a, b => (isZero a && isZero b) || a == b

def strictEq : V → V → Bool
  | .undef, .undef => true
  | .null, .null => true
  | .bool a, .bool b => a == b
  | .num a, .num b => numEq a b
  | .str a, .str b => a == b
  | _, _ => false

def looseEq : V → V → Bool
  | .undef, .null => true
  | .null, .undef => true
  | .num a, .str b => numEq a (strToNum b)
  | .str a, .num b => numEq (strToNum a) b
  | .bool a, .bool b => a == b
  | .bool a, .num b => numEq (.int (if a then 1 else 0)) b
  | .num a, .bool b => numEq a (.int (if b then 1 else 0))
  | .bool a, .str b => numEq (.int (if a then 1 else 0)) (strToNum b)
  | .str a, .bool b => numEq (strToNum a) (.int (if b then 1 else 0))
  | a, b => strictEq a b

/-- the `+` operator -/
def plus (a b : V) : V :=
  match a, b with
  | .str x, _ => .str (x ++ toStr b)
  | _, .str y => .str (toStr a ++ y)
  | _, _ => .num (add (toNumber a) (toNumber b))

def showV : V → String
  | .num .negz => "n:-0"
  | .num n => "n:" ++ numToString n
  | .str s => "s:" ++ s
  | .bool b => "boolean:" ++ toString b
  | .undef => "undefined:undefined"
  | .null => "object:null"


/-! ### 32-bit integer operators (ToInt32 / ToUint32 on the integers, exact) -/

def two32 : Nat := 4294967296
def two31 : Nat := 2147483648

/-- ToUint32: NaN, the infinities and −0 give 0, an integer is reduced modulo 2^32 -/
def toUint32 : Num → Nat
  | .int z => (z % (two32 : Int)).toNat
  | _ => 0

/-- reinterpret an unsigned 32-bit value as signed -/
def signed32 (u : Nat) : Int := if u < two31 then (u : Int) else (u : Int) - (two32 : Int)

def toInt32 (n : Num) : Int := signed32 (toUint32 n)

def bitAnd (a b : Num) : Num := .int (signed32 (toUint32 a &&& toUint32 b))
def bitOr (a b : Num) : Num := .int (signed32 (toUint32 a ||| toUint32 b))
def bitXor (a b : Num) : Num := .int (signed32 (toUint32 a ^^^ toUint32 b))
def bitNot (a : Num) : Num := .int (-(toInt32 a) - 1)
/-- the shift count is the low five bits of ToUint32 of the right operand -/
def shiftCount (b : Num) : Nat := toUint32 b % 32
def shl (a b : Num) : Num := .int (signed32 ((toUint32 a <<< shiftCount b) % two32))
def sar (a b : Num) : Num := .int (Int.fdiv (toInt32 a) ((2 ^ shiftCount b : Nat) : Int))
def shr (a b : Num) : Num := .int ((toUint32 a >>> shiftCount b : Nat) : Int)

/-- every binary / unary operator of the model by its source spelling -/
def binop (op : String) (a b : V) : Option V :=
  match op with
  | "+" => some (plus a b)
  | "-" => some (.num (sub (toNumber a) (toNumber b)))
  | "*" => some (.num (mul (toNumber a) (toNumber b)))
  | "<" => some (.bool (opLt a b))
  | ">" => some (.bool (opGt a b))
  | "<=" => some (.bool (opLe a b))
  | ">=" => some (.bool (opGe a b))
  | "==" => some (.bool (looseEq a b))
  | "!=" => some (.bool (!looseEq a b))
  | "===" => some (.bool (strictEq a b))
  | "!==" => some (.bool (!strictEq a b))
  | "&&" => some (if toBoolean a then b else a)
  | "||" => some (if toBoolean a then a else b)
  | "??" => some (if a == .undef || a == .null then b else a)
  | "&" => some (.num (bitAnd (toNumber a) (toNumber b)))
  | "|" => some (.num (bitOr (toNumber a) (toNumber b)))
  | "^" => some (.num (bitXor (toNumber a) (toNumber b)))
  | "<<" => some (.num (shl (toNumber a) (toNumber b)))
  | ">>" => some (.num (sar (toNumber a) (toNumber b)))
  | ">>>" => some (.num (shr (toNumber a) (toNumber b)))
  | _ => none

def unop (op : String) (a : V) : Option V :=
  match op with
  | "!" => some (.bool (!toBoolean a))
  | "-" => some (.num (neg (toNumber a)))
  | "+" => some (.num (toNumber a))
  | "typeof" => some (.str (typeOf a))
  | "void" => some .undef
  | "~" => some (.num (bitNot (toNumber a)))
  | _ => none

end TsrunVerif.Ops
