/-
M-Path — model of `ModulePath::{parent,is_relative,is_bare,resolve,normalize_path}`
(`/repo/src/lib.rs`, "impl ModulePath").  Strings are `List Char`: the Rust code
only ever splits on the ASCII byte `/`, which never occurs inside a multi-byte
UTF-8 sequence, so the char view and the byte view agree.

Transcription notes (Rust → Lean):
* `path.split('/')`            → `splitSlash`
* `segments.join("/")`         → `joinSlash`
* the `for segment in …` loop  → `normSegs` (a left fold, `pop` = `dropLast`)
* `self.0.rfind('/')…get(..i)` → `parent`
-/
namespace TsrunVerif.Path

/-- `str::split('/')` : always returns at least one piece. -/
def splitSlash : List Char → List (List Char)
  | [] => [[]]
  | c :: cs =>
    if c = '/' then [] :: splitSlash cs
    else match splitSlash cs with
      | [] => [[c]]
      | s :: ss => (c :: s) :: ss

/-- `[&str]::join("/")`. -/
def joinSlash : List (List Char) → List Char
  | [] => []
  | [s] => s
  | s :: t :: r => s ++ '/' :: joinSlash (t :: r)

/-- one iteration of the loop in `normalize_path`. -/
def normStep (acc : List (List Char)) (s : List Char) : List (List Char) :=
  if s = [] ∨ s = ['.'] then acc
  else if s = ['.', '.'] then acc.dropLast
  else acc ++ [s]

def normSegs (segs : List (List Char)) : List (List Char) :=
  segs.foldl normStep []

def startsWithSlash (p : List Char) : Bool :=
  p.head? == some '/' 

/-- `ModulePath::normalize_path`. -/
def normalize (p : List Char) : List Char :=
  let segs := normSegs (splitSlash p)
  if startsWithSlash p then '/' :: joinSlash segs else joinSlash segs

/-- `ModulePath::is_relative`: starts with `./` or `../`. -/
def isRelative (s : List Char) : Bool :=
  ['.', '/'].isPrefixOf s || ['.', '.', '/'].isPrefixOf s

/-- `ModulePath::is_bare`. -/
def isBare (s : List Char) : Bool :=
  !startsWithSlash s && !isRelative s

/-- `ModulePath::parent`: everything before the last `/`, `none` without a `/`. -/
def parent : List Char → Option (List Char)
  | [] => none
  | c :: cs =>
    match parent cs with
    | some d => some (c :: d)
    | none => if c = '/' then some [] else none

/-- `ModulePath::resolve` (after the `fix:` commit that keeps the root
directory: `Some("")` is a directory, `None` is "no directory"). -/
def resolve (spec : List Char) (base : Option (List Char)) : List Char :=
  if isBare spec then spec
  else if startsWithSlash spec then normalize spec
  else
    match base.bind parent with
    | some dir => normalize (dir ++ '/' :: spec)
    | none => normalize spec

/-- `resolve` as it was before the fix (kept to prove that the old code violated
`resolve_abs`): an empty directory was treated like "no directory". -/
def resolveOld (spec : List Char) (base : Option (List Char)) : List Char :=
  if isBare spec then spec
  else if startsWithSlash spec then normalize spec
  else
    let dir := (base.bind parent).getD []
    if dir.isEmpty then normalize spec else normalize (dir ++ '/' :: spec)

end TsrunVerif.Path
