/-
M-RegAlloc — model of `RegisterAllocator` and of the constant pool of `BytecodeBuilder`
(`/repo/src/compiler/builder.rs`).  Registers are `u8` in Rust; the model uses `Nat` and
states the 8-bit bounds explicitly (`next ≤ 255` is an invariant, `reserveFor` refuses
`count > 255` instead of narrowing).

`free_list: Vec<u8>` with `pop()` → `free : List Nat`, most recently pushed FIRST.
-/
namespace TsrunVerif.RegAlloc

structure RA where
  next : Nat
  saved : List Nat
  maxUsed : Nat
  free : List Nat
  deriving Repr, DecidableEq, Inhabited

def RA.init : RA := { next := 0, saved := [], maxUsed := 0, free := [] }

/-- `RegisterAllocator::alloc`. -/
def alloc (ra : RA) : Option (Nat × RA) :=
  match ra.free with
  | r :: rest => some (r, { ra with free := rest })
  | [] =>
    if ra.next = 255 then none
    else some (ra.next, { ra with next := ra.next + 1, maxUsed := max ra.maxUsed (ra.next + 1) })

/-- `RegisterAllocator::free`. -/
def free (ra : RA) (r : Nat) : RA :=
  if r = ra.next - 1 then { ra with next := r } else { ra with free := r :: ra.free }

/-- `RegisterAllocator::reserve_range` (`count` already a `u8`). -/
def reserveRange (ra : RA) (count : Nat) : Option (Nat × RA) :=
  if ra.next + count > 255 then none
  else some (ra.next, { ra with next := ra.next + count, maxUsed := max ra.maxUsed (ra.next + count) })

/-- `BytecodeBuilder::reserve_registers_for`: refuse what does not fit a `u8`. -/
def reserveFor (ra : RA) (count : Nat) : Option (Nat × RA) :=
  if count > 255 then none else reserveRange ra count

def save (ra : RA) : RA := { ra with saved := ra.next :: ra.saved }

def restore (ra : RA) : RA :=
  match ra.saved with
  | pos :: rest => { ra with next := pos, saved := rest, free := ra.free.filter (· < pos) }
  | [] => ra

inductive Op where
  | alloc
  | free (r : Nat)
  | reserve (n : Nat)
  | save
  | restore
  deriving Repr, DecidableEq, Inhabited

/-- run one op, ignoring its result (failed allocations leave the state unchanged). -/
def step (ra : RA) : Op → RA
  | .alloc => match alloc ra with | some (_, ra') => ra' | none => ra
  | .free r => free ra r
  | .reserve n => match reserveFor ra n with | some (_, ra') => ra' | none => ra
  | .save => save ra
  | .restore => restore ra

def run (ra : RA) (ops : List Op) : RA := ops.foldl step ra

/-! ### constant pool with the number/string de-duplication maps -/

structure Pool where
  consts : List Nat            -- the constants (numbers by bit pattern; strings by an id ≥ 2^64)
  deriving Repr, Inhabited

/-- `add_constant`: refuse at 65535 entries. -/
def addConstant (p : Pool) (c : Nat) : Option (Nat × Pool) :=
  if p.consts.length ≥ 65535 then none else some (p.consts.length, { consts := p.consts ++ [c] })

/-- `add_number` / `add_string`: reuse the index of an equal constant (the hash maps map a
key to the index it was first stored at). -/
def addDedup (p : Pool) (c : Nat) : Option (Nat × Pool) :=
  let i := p.consts.idxOf c
  if i < p.consts.length then some (i, p) else addConstant p c

end TsrunVerif.RegAlloc
