/-
M-Step — what one host `step()` costs and how deep the native stack gets
(`/repo/src/interpreter/mod.rs`: `step`, `call_function_with_new_target`, `enter_native_reentry`;
`/repo/src/interpreter/bytecode_vm.rs`: `step`, `setup_trampoline_call`,
`restore_from_trampoline_frame`; size guards in `builtins/array.rs`, `builtins/string.rs`,
`value.rs`, `builtins/json.rs`).

An instruction is either ordinary (including script-to-script calls and returns, which are
trampolined: they only push/pop an explicit frame), or a call of a re-entrant native, which runs
its callback to completion in a nested VM inside the same host step.
-/
namespace TsrunVerif.StepCost

inductive Instr where
  | plain
  | call                          -- trampolined script-to-script call
  | ret
  | native (callback : List Instr)    -- re-entrant native: runs `callback` nested
  deriving Repr, Inhabited

mutual
  /-- instructions executed by ONE host step that dispatches `i`. -/
  def cost : Instr → Nat
    | .plain => 1
    | .call => 1
    | .ret => 1
    | .native cb => 1 + costList cb
  def costList : List Instr → Nat
    | [] => 0
    | i :: t => cost i + costList t
end

mutual
  /-- deepest nesting of native re-entries while executing `i` (0 = none). -/
  def nativeDepth : Instr → Nat
    | .plain => 0
    | .call => 0
    | .ret => 0
    | .native cb => 1 + nativeDepthList cb
  def nativeDepthList : List Instr → Nat
    | [] => 0
    | i :: t => max (nativeDepth i) (nativeDepthList t)
end

def isTrampolined : Instr → Bool
  | .native _ => false
  | _ => true

/-- script call depth after a list of top-level instructions (explicit frames only). -/
def scriptDepth : List Instr → Nat → Nat
  | [], d => d
  | .call :: t, d => scriptDepth t (d + 1)
  | .ret :: t, d => scriptDepth t (d - 1)
  | _ :: t, d => scriptDepth t d

/-- the native-stack guard: a re-entry is refused once `used > budget`. -/
def guardAccepts (budget used : Nat) : Bool := used ≤ budget

/-- size guards: a requested dense-array length / string length is accepted iff it can be stored. -/
def maxArrayLength : Nat := 2 ^ 27
def maxStringLength : Nat := 2 ^ 29
def arrayLengthAccepted (n : Nat) : Bool := n ≤ maxArrayLength
def repeatAccepted (unitLen count : Nat) : Bool := count * unitLen ≤ maxStringLength

end TsrunVerif.StepCost
