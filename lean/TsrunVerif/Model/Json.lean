import TsrunVerif.Model.Num
/-
M-Json — model of the JSON boundary (`/repo/src/interpreter/builtins/json.rs`):
`json_to_js_value_with_guard` (= `fromJson`), `js_value_to_json_with_visited` (= `toJson`,
acyclic part), `Interpreter::property_key` / `PropertyKey::to_string` (key canonicalisation),
and the text layer that the Rust code delegates to serde_json (string escaping, `parseJson`,
`printJson`) — a trusted parameter of the implementation, compared differentially.

Numbers are carried as the 64-bit pattern of the double (`Nat`).  Object members are kept
in insertion order; the correspondence compares objects as key→value maps (serde_json's map
is a BTreeMap, i.e. sorted; ECMAScript's order is insertion order — C16 is about content).
-/
namespace TsrunVerif.Json

inductive Json where
  | null
  | bool (b : Bool)
  | num (bits : Nat)
  | str (s : List Char)
  | arr (l : List Json)
  | obj (kvs : List (List Char × Json))
  deriving Repr, Inhabited

/-- `PropertyKey` without symbols. -/
inductive Key where
  | index (n : Nat)
  | str (s : List Char)
  deriving Repr, DecidableEq, Inhabited

/-- acyclic JavaScript values as far as JSON is concerned. -/
inductive Js where
  | undef
  | null
  | bool (b : Bool)
  | num (bits : Nat)
  | str (s : List Char)
  | arr (l : List Js)
  | obj (props : List (Key × Js))
  | func
  | symbol
  deriving Repr, Inhabited

def natStr (n : Nat) : List Char := (Nat.toDigits 10 n)

/-- parse a string of ASCII digits. -/
def parseNat? (s : List Char) : Option Nat :=
  if s.isEmpty then none
  else if s.all Char.isDigit then some (s.foldl (fun a c => a * 10 + (c.toNat - 48)) 0) else none

/-- `Interpreter::property_key`: an index key iff the text is the canonical decimal spelling
of a `u32`. -/
def propertyKey (s : List Char) : Key :=
  match parseNat? s with
  | some n => if n < 4294967296 ∧ natStr n = s then .index n else .str s
  | none => .str s

/-- `PropertyKey::to_string`. -/
def keyToString : Key → List Char
  | .index n => natStr n
  | .str s => s

mutual
  /-- `json_to_js_value_with_guard`. -/
  def fromJson : Json → Js
    | .null => .null
    | .bool b => .bool b
    | .num n => .num n
    | .str s => .str s
    | .arr l => .arr (fromJsonList l)
    | .obj kvs => .obj (fromJsonKvs kvs)
  def fromJsonList : List Json → List Js
    | [] => []
    | j :: t => fromJson j :: fromJsonList t
  def fromJsonKvs : List (List Char × Json) → List (Key × Js)
    | [] => []
    | (k, j) :: t => (propertyKey k, fromJson j) :: fromJsonKvs t
end

def isFiniteBits (bits : Nat) : Bool := bits / 2 ^ 52 % 2048 != 2047

/-- has the value a JSON form as an object member? (`undefined`, functions, symbols: no) -/
def hasJsonForm : Js → Bool
  | .undef => false
  | .func => false
  | .symbol => false
  | _ => true

mutual
  /-- `js_value_to_json_with_visited` on acyclic values: what `JSON.stringify` serialises. -/
  def toJson : Js → Json
    | .undef => .null
    | .null => .null
    | .bool b => .bool b
    | .num n => if isFiniteBits n then .num (if n == 2 ^ 63 then 0 else n) else .null
    | .str s => .str s
    | .arr l => .arr (toJsonList l)
    | .obj ps => .obj (toJsonProps ps)
    | .func => .null
    | .symbol => .null
  def toJsonList : List Js → List Json
    | [] => []
    | v :: t => toJson v :: toJsonList t
  def toJsonProps : List (Key × Js) → List (List Char × Json)
    | [] => []
    | (k, v) :: t => if hasJsonForm v then (keyToString k, toJson v) :: toJsonProps t else toJsonProps t
end

/-- script-side property read `v[k]` on an object built from JSON. -/
def getProp (ps : List (Key × Js)) (k : List Char) : Option Js :=
  match ps.find? (fun p => p.1 == propertyKey k) with
  | some p => some p.2
  | none => none

/-- JSON-side member lookup (first occurrence; documents with duplicate keys are excluded
by `NoDupKeys` where it matters). -/
def getMember (kvs : List (List Char × Json)) (k : List Char) : Option Json :=
  match kvs.find? (fun p => p.1 == k) with
  | some p => some p.2
  | none => none

/-! ### text layer: string escaping (serde_json's `format_escaped_str` / parser) -/

def hexDigit (n : Nat) : Char :=
  if n < 10 then Char.ofNat (48 + n) else Char.ofNat (87 + n)

def hexVal (c : Char) : Option Nat :=
  if '0' ≤ c ∧ c ≤ '9' then some (c.toNat - 48)
  else if 'a' ≤ c ∧ c ≤ 'f' then some (c.toNat - 87)
  else if 'A' ≤ c ∧ c ≤ 'F' then some (c.toNat - 55)
  else none

/-- escape one character the way serde_json writes it. -/
def escapeChar (c : Char) : List Char :=
  if c = '"' then ['\\', '"']
  else if c = '\\' then ['\\', '\\']
  else if c = '\n' then ['\\', 'n']
  else if c = '\r' then ['\\', 'r']
  else if c = '\t' then ['\\', 't']
  else if c = '\x08' then ['\\', 'b']
  else if c = '\x0c' then ['\\', 'f']
  else if c.toNat < 32 then ['\\', 'u', '0', '0', hexDigit (c.toNat / 16), hexDigit (c.toNat % 16)]
  else [c]

def escape (s : List Char) : List Char := s.flatMap escapeChar

/-- inverse direction: read the body of a JSON string (up to the end of the list).
`\uXXXX` escapes of surrogate pairs are combined; lone surrogates are rejected (serde_json). -/
def unescape : List Char → Option (List Char)
  | [] => some []
  | '\\' :: 'u' :: a :: b :: c :: d :: rest =>
    match hexVal a, hexVal b, hexVal c, hexVal d with
    | some x, some y, some z, some w =>
      let cp := ((x * 16 + y) * 16 + z) * 16 + w
      if 0xD800 ≤ cp ∧ cp < 0xDC00 then
        match rest with
        | '\\' :: 'u' :: a2 :: b2 :: c2 :: d2 :: rest2 =>
          match hexVal a2, hexVal b2, hexVal c2, hexVal d2 with
          | some x2, some y2, some z2, some w2 =>
            let lo := ((x2 * 16 + y2) * 16 + z2) * 16 + w2
            if 0xDC00 ≤ lo ∧ lo < 0xE000 then
              (unescape rest2).map (Char.ofNat (0x10000 + (cp - 0xD800) * 1024 + (lo - 0xDC00)) :: ·)
            else none
          | _, _, _, _ => none
        | _ => none
      else if 0xDC00 ≤ cp ∧ cp < 0xE000 then none
      else (unescape rest).map (Char.ofNat cp :: ·)
    | _, _, _, _ => none
  | '\\' :: e :: rest =>
    let r := fun (ch : Char) => (unescape rest).map (ch :: ·)
    if e = '"' then r '"' else if e = '\\' then r '\\' else if e = '/' then r '/'
    else if e = 'n' then r '\n' else if e = 'r' then r '\r' else if e = 't' then r '\t'
    else if e = 'b' then r '\x08' else if e = 'f' then r '\x0c' else none
  | ['\\'] => none
  | c :: rest => if c = '"' ∨ c.toNat < 32 then none else (unescape rest).map (c :: ·)

end TsrunVerif.Json
