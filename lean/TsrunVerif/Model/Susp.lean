/-
M-Susp — suspension and resumption of a running program.

`Frame` / `Vm` list, field for field, the state of `BytecodeVM` and of its `TrampolineFrame`s that
determines how execution continues (src/interpreter/bytecode_vm.rs); `Saved*` are `SavedVmState` /
`SavedTrampolineFrame`; `save` / `restore` are `BytecodeVM::save_state` / `from_saved_state`
together with `Interpreter::restore_suspended_vm` (which re-installs the environment).  The field
lists of the four Rust structs are re-extracted on every run (`Gen/VmFields.lean`) and every field
must be saved or be on the reviewed list of transient ones (`Lemmas/VmFieldsAllow.lean`).

`saveLossy` is what the code did before the repair (no `this`, no pending completion, no handled
exception, no open block scopes, no environment) - kept to show that the theorem distinguishes.
-/
namespace TsrunVerif.Susp

/-- a completion waiting behind a finally block -/
inductive Completion where
  | ret (v : Int)
  | thr (v : Int)
  | brk (target tryDepth scopeDepth : Nat)
  | cont (target tryDepth scopeDepth : Nat)
  deriving Repr, DecidableEq, Inhabited

structure Frame where
  ip : Nat
  chunk : Nat
  registers : List Int
  thisValue : Int
  callStack : List Nat
  tryStack : List Nat
  exception : Option Int
  savedEnvStack : List Nat
  arguments : List Int
  newTarget : Int
  currentConstructor : Option Nat
  pending : Option Completion
  deriving Repr, DecidableEq, Inhabited

/-- a suspended caller: its frame plus the bookkeeping of the call it is waiting in -/
structure Caller where
  frame : Frame
  returnRegister : Nat
  savedInterpEnv : Nat
  constructNewObj : Option Nat
  isAsync : Bool
  deriving Repr, DecidableEq, Inhabited

structure Vm where
  top : Frame
  callers : List Caller
  env : Nat                      -- the interpreter's current environment
  deriving Repr, DecidableEq, Inhabited

structure SavedFrame where
  ip : Nat
  chunk : Nat
  registers : List Int
  thisValue : Int
  callStack : List Nat
  tryStack : List Nat
  exception : Option Int
  savedEnvStack : List Nat
  arguments : List Int
  newTarget : Int
  currentConstructor : Option Nat
  pending : Option Completion
  returnRegister : Nat
  savedInterpEnv : Nat
  constructNewObj : Option Nat
  isAsync : Bool
  deriving Repr, DecidableEq, Inhabited

structure Saved where
  ip : Nat
  chunk : Nat
  registers : List Int
  frames : List Nat
  tryStack : List Nat
  arguments : List Int
  newTarget : Int
  trampoline : List SavedFrame
  thisValue : Option Int
  exception : Option Int
  savedEnvStack : List Nat
  currentConstructor : Option Nat
  pending : Option Completion
  interpEnv : Option Nat
  deriving Repr, DecidableEq, Inhabited

def saveCaller (c : Caller) : SavedFrame :=
  { ip := c.frame.ip, chunk := c.frame.chunk, registers := c.frame.registers, thisValue := c.frame.thisValue,
    callStack := c.frame.callStack, tryStack := c.frame.tryStack, exception := c.frame.exception,
    savedEnvStack := c.frame.savedEnvStack, arguments := c.frame.arguments, newTarget := c.frame.newTarget,
    currentConstructor := c.frame.currentConstructor, pending := c.frame.pending,
    returnRegister := c.returnRegister, savedInterpEnv := c.savedInterpEnv, constructNewObj := c.constructNewObj,
    isAsync := c.isAsync }

def restoreCaller (s : SavedFrame) : Caller :=
  { frame := { ip := s.ip, chunk := s.chunk, registers := s.registers, thisValue := s.thisValue, callStack := s.callStack,
               tryStack := s.tryStack, exception := s.exception, savedEnvStack := s.savedEnvStack, arguments := s.arguments,
               newTarget := s.newTarget, currentConstructor := s.currentConstructor, pending := s.pending },
    returnRegister := s.returnRegister, savedInterpEnv := s.savedInterpEnv, constructNewObj := s.constructNewObj,
    isAsync := s.isAsync }

def save (v : Vm) : Saved :=
  { ip := v.top.ip, chunk := v.top.chunk, registers := v.top.registers, frames := v.top.callStack, tryStack := v.top.tryStack,
    arguments := v.top.arguments, newTarget := v.top.newTarget, trampoline := v.callers.map saveCaller,
    thisValue := some v.top.thisValue, exception := v.top.exception, savedEnvStack := v.top.savedEnvStack,
    currentConstructor := v.top.currentConstructor, pending := v.top.pending, interpEnv := some v.env }

/-- `globalThis` / `curEnv`: what a resumption falls back to when the saved state carries no `this`
or environment (the generator path supplies its own) -/
def restore (globalThis : Int) (curEnv : Nat) (s : Saved) : Vm :=
  { top := { ip := s.ip, chunk := s.chunk, registers := s.registers, thisValue := s.thisValue.getD globalThis,
             callStack := s.frames, tryStack := s.tryStack, exception := s.exception, savedEnvStack := s.savedEnvStack,
             arguments := s.arguments, newTarget := s.newTarget, currentConstructor := s.currentConstructor,
             pending := s.pending },
    callers := s.trampoline.map restoreCaller,
    env := s.interpEnv.getD curEnv }

/-- the pre-repair behaviour -/
def saveLossy (v : Vm) : Saved :=
  { save v with thisValue := none, exception := none, savedEnvStack := [], currentConstructor := none, pending := none,
                interpEnv := none,
                trampoline := v.callers.map (fun c => { saveCaller c with exception := none, pending := none }) }

/-! ### running with awaits -/

/-- what happens after an await delivers a value: the program finishes with an outcome or reaches
its next await in a new state -/
abbrev Next (Outcome : Type) := Vm → Int → Sum Vm Outcome

/-- run a program through its awaits; `modes[i] = true` means the i-th awaited value arrived only
after the interpreter had suspended to the host (state saved, host does anything, state restored) -/
def runWith {Outcome : Type} (next : Next Outcome) (globalThis : Int) (hostEnv : Nat) :
    Vm → List Int → List Bool → Option Outcome
  | _, [], _ => none
  | v, x :: xs, modes =>
    let suspended := modes.headD false
    let v' := if suspended then restore globalThis hostEnv (save v) else v
    match next v' x with
    | .inr out => some out
    | .inl v'' => runWith next globalThis hostEnv v'' xs modes.tail

/-! ### independent host promises -/

/-- results of settled promises, looked up by promise index -/
def lookup (settled : List (Nat × Int)) (i : Nat) : Option Int :=
  match settled with
  | [] => none
  | (k, v) :: rest => if k = i then some v else lookup rest i

end TsrunVerif.Susp
