/-!
# M-Comb — the promise combinators as bookkeeping over settlement events

Transcribed from `src/interpreter/builtins/promise.rs`: `promise_all` / `handle_promise_all_fulfill` /
`handle_promise_all_reject` (`PromiseAllSharedState`: results, remaining, rejected, result promise),
`promise_allsettled` and `promise_any` (built from `then_each` + `promise_all`), `promise_race` /
`handle_promise_race_settle`.  The inputs are numbered; the host / the program settles them in some
order: an event list.  Core Lean only.
-/
namespace TsrunVerif.Comb

/-- one input settles -/
inductive Ev where
  | ful (i : Nat) (v : Int)
  | rej (i : Nat) (r : Int)
  deriving Repr, DecidableEq, Inhabited

def Ev.idx : Ev → Nat
  | .ful i _ => i
  | .rej i _ => i

/-- outcome of a combinator's result promise -/
inductive Out (α : Type) where
  | pending
  | fulfilled (v : α)
  | rejected (r : Int)
  deriving Repr, DecidableEq, Inhabited

/-- `PromiseAllSharedState` for `n` inputs: the result slots (as a function of the input position),
    the count-down and the result promise -/
structure AllSt (α : Type) where
  n : Nat
  results : Nat → Option α
  remaining : Nat
  out : Out (List α)

def collect {α : Type} (n : Nat) (results : Nat → Option α) (dflt : α) : List α :=
  (List.range n).map (fun i => (results i).getD dflt)

def allInit {α : Type} (n : Nat) : AllSt α :=
  { n := n, results := fun _ => none, remaining := n, out := if n = 0 then .fulfilled [] else .pending }

/-- a fulfilment of input `i` reaches the bookkeeping: it stores its value and counts down, the last one
    fulfils the result with the values in INPUT order; nothing changes once the result is settled; an
    input is counted only once -/
def allFulfil {α : Type} (dflt : α) (s : AllSt α) (i : Nat) (v : α) : AllSt α :=
  match s.out with
  | .pending =>
    if i < s.n ∧ s.results i = none then
      let rs := fun j => if j = i then some v else s.results j
      if s.remaining - 1 = 0 then { s with results := rs, remaining := 0, out := .fulfilled (collect s.n rs dflt) }
      else { s with results := rs, remaining := s.remaining - 1 }
    else s
  | _ => s

/-- a rejection rejects the result at once (`handle_promise_all_reject`) -/
def allReject {α : Type} (s : AllSt α) (r : Int) : AllSt α :=
  match s.out with
  | .pending => { s with out := .rejected r }
  | _ => s

def allStep (s : AllSt Int) : Ev → AllSt Int
  | .ful i v => allFulfil 0 s i v
  | .rej _ r => allReject s r

def allRun (n : Nat) (es : List Ev) : AllSt Int := es.foldl allStep (allInit n)

/-- `Promise.all` -/
def all (n : Nat) (es : List Ev) : Out (List Int) := (allRun n es).out

/-- element of an `allSettled` result -/
inductive Settled where
  | fulfilled (v : Int)
  | rejected (r : Int)
  deriving Repr, DecidableEq, Inhabited

/-- what `then(v => {status: fulfilled, value: v}, r => {status: rejected, reason: r})` makes of a settlement -/
def Ev.settled : Ev → Settled
  | .ful _ v => .fulfilled v
  | .rej _ r => .rejected r

/-- `allSettled`: every input mapped through that `then` never rejects; the mapped promises go through the
    bookkeeping of `Promise.all` -/
def setStep (s : AllSt Settled) (e : Ev) : AllSt Settled := allFulfil (.fulfilled 0) s e.idx e.settled

def allSettled (n : Nat) (es : List Ev) : Out (List Settled) := (es.foldl setStep (allInit n)).out

/-- swap the roles of fulfilment and rejection -/
def Ev.swap : Ev → Ev
  | .ful i v => .rej i v
  | .rej i r => .ful i r

/-- `Promise.any` = `Promise.all` with the roles swapped, swapped back: fulfilled with the first
    fulfilment, rejected with all the reasons in input order -/
def any (n : Nat) (es : List Ev) : Out Int × Option (List Int) :=
  match all n (es.map Ev.swap) with
  | .pending => (.pending, none)
  | .rejected v => (.fulfilled v, none)
  | .fulfilled rs => (.rejected 0, some rs)          -- rejected with the list of reasons

/-- `Promise.race`: the first settlement decides -/
def race : List Ev → Out Int
  | [] => .pending
  | .ful _ v :: _ => .fulfilled v
  | .rej _ r :: _ => .rejected r

end TsrunVerif.Comb
