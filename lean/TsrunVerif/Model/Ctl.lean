/-
M-Ctl — control flow by completion records (ECMA-262 §6.2.4, §14): blocks with `let` scoping,
if, while, labelled statements, break/continue (with and without label), return (inside a
function-like wrapper), throw, try/catch/finally, switch with fall-through.

`exec` is the specification's evaluation: a statement yields a completion (`normal`, `brk`, `cont`,
`ret`, `thr`) and a new state (variable scopes + output log).  `finally` overrides the pending
completion iff the finalizer completes abruptly; loops consume unlabelled break/continue and those
carrying one of their own labels; a block's `let` variables disappear with the block.

The program text for the real engine is printed by `render`; every statement logs through `out(…)`
so that the order of effects is observable.
-/
namespace TsrunVerif.Ctl

inductive Expr where
  | lit (n : Int)
  | var (x : String)
  | add (a b : Expr)
  | lt (a b : Expr)
  | eq (a b : Expr)
  deriving Repr, Inhabited

inductive Stmt where
  | log (tag : String) (e : Expr)                 -- out(tag + e)
  | letS (x : String) (e : Expr)                  -- let x = e   (block scoped)
  | assign (x : String) (e : Expr)
  | block (body : List Stmt)
  | ifS (c : Expr) (thn els : List Stmt)
  | whileS (labels : List String) (c : Expr) (body : List Stmt)   -- labelled loops: l1: l2: while (c) {…}
  | brk (label : Option String)
  | cont (label : Option String)
  | ret (e : Expr)
  | thr (e : Expr)
  | tryS (body : List Stmt) (catchVar : Option String) (handler : List Stmt) (fin : Option (List Stmt))
  | labelled (label : String) (body : List Stmt)  -- l: { … }  (a labelled block: `break l` leaves it)
  | switchS (e : Expr) (cases : List (Int × List Stmt)) (dflt : Option (List Stmt)) (dpos : Nat)   -- the default clause is printed before case number `dpos`
  deriving Repr, Inhabited

inductive Completion where
  | normal
  | brk (label : Option String)
  | cont (label : Option String)
  | ret (v : Int)
  | thr (v : Int)
  deriving Repr, DecidableEq, Inhabited

/-- a binding is a value, or `none` while its `let` has not been evaluated yet (temporal dead
zone: the block's `let` names exist from the start of the block) -/
abbrev Scope := List (String × Option Int)

structure St where
  scopes : List Scope
  log : List String
  deriving Repr, DecidableEq, Inhabited

/-- the value thrown for a ReferenceError (printed as `RefErr` by the rendered program) -/
def refErr : Int := -99999

/-- `none` = ReferenceError (uninitialised or undeclared binding) -/
def lookup (scopes : List Scope) (x : String) : Option Int :=
  match scopes with
  | [] => none
  | sc :: rest => match sc.find? (fun p => p.1 == x) with
    | some p => p.2
    | none => lookup rest x

/-- assignment: `none` = ReferenceError (the binding found is still uninitialised, or there is none) -/
def assignIn (scopes : List Scope) (x : String) (v : Int) : Option (List Scope) :=
  match scopes with
  | [] => none
  | sc :: rest =>
    match sc.find? (fun p => p.1 == x) with
    | some (_, some _) => some ((sc.map (fun p => if p.1 == x then (x, some v) else p)) :: rest)
    | some (_, none) => none
    | none => (assignIn rest x v).map (sc :: ·)

def eval (s : St) : Expr → Option Int
  | .lit n => some n
  | .var x => lookup s.scopes x
  | .add a b => do pure ((← eval s a) + (← eval s b))
  | .lt a b => do pure (if (← eval s a) < (← eval s b) then 1 else 0)
  | .eq a b => do pure (if (← eval s a) == (← eval s b) then 1 else 0)

def declare (s : St) (x : String) (v : Int) : St :=
  match s.scopes with
  | sc :: rest => { s with scopes := ((x, some v) :: sc.filter (fun p => p.1 != x)) :: rest }
  | [] => { s with scopes := [[(x, some v)]] }

/-- names declared by `let` directly in a statement list -/
def letNames : List Stmt → List String
  | [] => []
  | .letS x _ :: rest => x :: letNames rest
  | _ :: rest => letNames rest

/-- enter a block: its `let` names exist, uninitialised, from the start -/
def pushScopeFor (s : St) (body : List Stmt) : St :=
  { s with scopes := ((letNames body).map (fun x => (x, none))) :: s.scopes }
def pushScope (s : St) : St := { s with scopes := [] :: s.scopes }
def popScope (s : St) : St := { s with scopes := s.scopes.tail }

def outOfFuel (s : St) : Completion × St := (.normal, { s with log := s.log ++ ["FUEL"] })

mutual
/-- evaluate a statement; `fuel` decreases at every nested evaluation and every loop iteration
(the generated programs need far less than they are given) -/
def exec : Nat → St → Stmt → Completion × St
  | 0, s, _ => outOfFuel s
  | fuel + 1, s, st =>
    match st with
    | .log tag e =>
      (match eval s e with
       | some v => (.normal, { s with log := s.log ++ [tag ++ toString v] })
       | none => (.thr refErr, s))
    | .letS x e =>
      (match eval s e with
       | some v => (.normal, declare s x v)
       | none => (.thr refErr, s))
    | .assign x e =>
      (match eval s e with
       | some v => (match assignIn s.scopes x v with
                    | some sc => (.normal, { s with scopes := sc })
                    | none => (.thr refErr, s))
       | none => (.thr refErr, s))
    | .block body =>
      let (c, s') := execList fuel (pushScopeFor s body) body
      (c, popScope s')
    | .ifS c thn els =>
      (match eval s c with
       | none => (.thr refErr, s)
       | some cv =>
        if cv != 0 then
          let (r, s') := execList fuel (pushScopeFor s thn) thn
          (r, popScope s')
        else
          let (r, s') := execList fuel (pushScopeFor s els) els
          (r, popScope s'))
    | .whileS labels c body => loop fuel s labels c body
    | .brk l => (.brk l, s)
    | .cont l => (.cont l, s)
    | .ret e => (match eval s e with | some v => (.ret v, s) | none => (.thr refErr, s))
    | .thr e => (match eval s e with | some v => (.thr v, s) | none => (.thr refErr, s))
    | .labelled l body =>
      let (c, s') := execList fuel (pushScopeFor s body) body
      let s'' := popScope s'
      match c with
      | .brk (some l') => if l' == l then (.normal, s'') else (c, s'')
      | _ => (c, s'')
    | .tryS body cv handler fin =>
      let (c1, s1) :=
        let (c, s') := execList fuel (pushScopeFor s body) body
        (c, popScope s')
      let (c2, s2) := match c1 with
        | .thr v =>
          (match cv with
           | some x =>
             -- the catch parameter lives in a scope of its own around the handler block
             let (c, s') := execList fuel (pushScopeFor (declare (pushScope s1) x v) handler) handler
             (c, popScope (popScope s'))
           | none =>
             if handler.isEmpty && fin.isSome then (c1, s1)      -- try/finally without catch
             else
               let (c, s') := execList fuel (pushScopeFor s1 handler) handler
               (c, popScope s'))
        | _ => (c1, s1)
      match fin with
      | none => (c2, s2)
      | some f =>
        let (c3, s3) :=
          let (c, s') := execList fuel (pushScopeFor s2 f) f
          (c, popScope s')
        match c3 with
        | .normal => (c2, s3)        -- the finalizer completed normally: the pending completion stands
        | _ => (c3, s3)              -- an abrupt finalizer overrides it
    | .switchS e cases dflt dpos =>
      (match eval s e with
       | none => (.thr refErr, s)
       | some v =>
        -- the clauses in source order: the default stands before case number `dpos`
        let p := min dpos cases.length
        let clauses : List (List Stmt) :=
          match dflt with
          | some d => (cases.take p).map (·.2) ++ [d] ++ (cases.drop p).map (·.2)
          | none => cases.map (·.2)
        -- every case is tested (in order) before the default is considered; execution then
        -- falls through the clauses that follow the selected one in source order
        let start : Option Nat :=
          match cases.findIdx? (fun c => c.1 == v) with
          | some i => some (if dflt.isSome && p ≤ i then i + 1 else i)
          | none => if dflt.isSome then some p else none
        let bodies : List (List Stmt) := match start with | some k => clauses.drop k | none => []
        let (c, s') := execLists fuel (pushScope s) bodies
        let s'' := popScope s'
        match c with
        | .brk none => (.normal, s'')
        | _ => (c, s''))

def execList : Nat → St → List Stmt → Completion × St
  | 0, s, _ => outOfFuel s
  | _ + 1, s, [] => (.normal, s)
  | fuel + 1, s, st :: rest =>
    match exec fuel s st with
    | (.normal, s') => execList fuel s' rest
    | r => r

def execLists : Nat → St → List (List Stmt) → Completion × St
  | 0, s, _ => outOfFuel s
  | _ + 1, s, [] => (.normal, s)
  | fuel + 1, s, b :: rest =>
    match execList fuel s b with
    | (.normal, s') => execLists fuel s' rest
    | r => r

def loop : Nat → St → List String → Expr → List Stmt → Completion × St
  | 0, s, _, _, _ => outOfFuel s
  | fuel + 1, s, labels, c, body =>
    match eval s c with
    | none => (.thr refErr, s)
    | some cv =>
    if cv == 0 then (.normal, s) else
    let (r, s1) :=
      let (r, s') := execList fuel (pushScopeFor s body) body
      (r, popScope s')
    match r with
    | .normal => loop fuel s1 labels c body
    | .cont none => loop fuel s1 labels c body
    | .cont (some l) => if labels.contains l then loop fuel s1 labels c body else (r, s1)
    | .brk none => (.normal, s1)
    | .brk (some l) => if labels.contains l then (.normal, s1) else (r, s1)
    | _ => (r, s1)
end

/-- a program is the body of a function: its log and how it ended -/
def run (body : List Stmt) : List String × String :=
  let (c, s) := execList 100000 (pushScopeFor { scopes := [], log := [] } body) body
  let showT (v : Int) : String := if v == refErr then "RefErr" else toString v
  (s.log, match c with
    | .normal => "end"
    | .ret v => "return " ++ showT v
    | .thr v => "throw " ++ showT v
    | .brk _ => "stray-break"
    | .cont _ => "stray-continue")

/-! ### printer -/

def renderE : Expr → String
  | .lit n => if n < 0 then "(" ++ toString n ++ ")" else toString n
  | .var x => x
  | .add a b => "(" ++ renderE a ++ " + " ++ renderE b ++ ")"
  | .lt a b => "(" ++ renderE a ++ " < " ++ renderE b ++ " ? 1 : 0)"
  | .eq a b => "(" ++ renderE a ++ " === " ++ renderE b ++ " ? 1 : 0)"

mutual
def renderS : Stmt → String
  | .log tag e => "out('" ++ tag ++ "' + " ++ renderE e ++ ");"
  | .letS x e => "let " ++ x ++ " = " ++ renderE e ++ ";"
  | .assign x e => x ++ " = " ++ renderE e ++ ";"
  | .block body => "{ " ++ renderL body ++ "}"
  | .ifS c thn els => "if (" ++ renderE c ++ ") { " ++ renderL thn ++ "} else { " ++ renderL els ++ "}"
  | .whileS labels c body => String.join (labels.map (· ++ ": ")) ++ "while (" ++ renderE c ++ ") { " ++ renderL body ++ "}"
  | .brk none => "break;"
  | .brk (some l) => "break " ++ l ++ ";"
  | .cont none => "continue;"
  | .cont (some l) => "continue " ++ l ++ ";"
  | .ret e => "return " ++ renderE e ++ ";"
  | .thr e => "throw " ++ renderE e ++ ";"
  | .labelled l body => l ++ ": { " ++ renderL body ++ "}"
  | .tryS body cv handler fin =>
    "try { " ++ renderL body ++ "}"
      ++ (match cv with
          | some x => " catch (" ++ x ++ ") { " ++ x ++ " = N(" ++ x ++ "); " ++ renderL handler ++ "}"
          | none => if handler.isEmpty && fin.isSome then "" else " catch { " ++ renderL handler ++ "}")
      ++ (match fin with | some f => " finally { " ++ renderL f ++ "}" | none => "")
  | .switchS e cases dflt dpos =>
    "switch (" ++ renderE e ++ ") { "
      ++ (match dflt with
          | some d => renderCasesD (some (min dpos cases.length)) ("default: " ++ renderL d) cases
          | none => renderCasesD none "" cases)
      ++ "}"
def renderL : List Stmt → String
  | [] => ""
  | s :: rest => renderS s ++ " " ++ renderL rest
/-- the case clauses, with the default clause `d` printed before case number `k` (`none`: already printed / absent) -/
def renderCasesD : Option Nat → String → List (Int × List Stmt) → String
  | some _, d, [] => d
  | none, _, [] => ""
  | k, d, (v, b) :: rest =>
    let pre := match k with | some 0 => d | _ => ""
    let k' := match k with | some (n + 1) => some n | _ => none
    pre ++ "case " ++ toString v ++ ": " ++ renderL b ++ renderCasesD k' d rest
end

/-- the whole program: a function body, its log and its completion -/
def render (body : List Stmt) : String :=
  "const log = []; function out(s) { log.push(s); } function N(e) { return e instanceof ReferenceError ? 'RefErr' : e; }\n"
    ++ "function main() { " ++ renderL body ++ "}\n"
    ++ "let end; try { const r = main(); end = r === undefined ? 'end' : 'return ' + r; } catch (e) { end = 'throw ' + N(e); }\n"
    ++ "log.join(',') + '|' + end"

end TsrunVerif.Ctl
