/-
M-Orders — model of the host-visible order ledger (`/repo/src/interpreter/mod.rs`:
`next_order_id`, `pending_orders`, `cancelled_orders`, the `mem::take` in every
`StepResult::Suspended`; `/repo/src/interpreter/builtins/internal.rs`: `order`,
`__cancelOrder__`, `__getOrderId__`; `promise.rs`: rejection of an order-linked promise and
`Promise.race` losers push to `cancelled_orders`).

The script and the promise machinery are abstracted to the events they cause on the ledger:
* `issue`        `order(payload)`: fresh id, recorded as pending
* `getId`        `__getOrderId__()`: consumes an id
* `cancel id`    `__cancelOrder__(id)`: reported cancelled, removed from the not-yet-reported orders
* `mark id`      an order-linked host promise was rejected or lost a race: reported cancelled
* `report`       a `step()` returned `Suspended { pending, cancelled }` (both lists are taken)
-/
namespace TsrunVerif.Orders

structure Ledger where
  nextId : Nat
  pending : List Nat
  cancelled : List Nat
  deriving Repr, DecidableEq, Inhabited

def Ledger.init : Ledger := { nextId := 1, pending := [], cancelled := [] }

inductive Ev where
  | issue
  | getId
  | cancel (id : Nat)
  | mark (id : Nat)
  | report
  deriving Repr, DecidableEq, Inhabited

/-- one event; a `report` yields the two lists handed to the host. -/
def step (l : Ledger) : Ev → Ledger × Option (List Nat × List Nat)
  | .issue => ({ l with nextId := l.nextId + 1, pending := l.pending ++ [l.nextId] }, none)
  | .getId => ({ l with nextId := l.nextId + 1 }, none)
  | .cancel id => ({ l with cancelled := l.cancelled ++ [id], pending := l.pending.filter (· != id) }, none)
  | .mark id => ({ l with cancelled := l.cancelled ++ [id] }, none)
  | .report => ({ l with pending := [], cancelled := [] }, some (l.pending, l.cancelled))

def optList {α} : Option α → List α
  | some x => [x]
  | none => []

/-- the ledger after a list of events. -/
def final (l : Ledger) : List Ev → Ledger
  | [] => l
  | e :: t => final (step l e).1 t

/-- the reports produced by a list of events, in order. -/
def reports (l : Ledger) : List Ev → List (List Nat × List Nat)
  | [] => []
  | e :: t => optList (step l e).2 ++ reports (step l e).1 t

def run (l : Ledger) (evs : List Ev) : Ledger × List (List Nat × List Nat) := (final l evs, reports l evs)

/-- all ids ever reported as pending, in report order. -/
def reportedPending (rs : List (List Nat × List Nat)) : List Nat := rs.flatMap (·.1)

def reportedCancelled (rs : List (List Nat × List Nat)) : List Nat := rs.flatMap (·.2)

end TsrunVerif.Orders
