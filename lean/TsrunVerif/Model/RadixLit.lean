/-!
M-RadixLit — `radix_literal_value` of `/repo/src/lexer.rs`: the value of the digits of a `0x` / `0o` /
`0b` literal of any length.  The radix is `2^k`; the leading digits are shifted into a mantissa while
it is below `2^120`, every later digit only adds `k` to the count of dropped bits and sets a sticky
flag when it is not zero; the result is `(mantissa | sticky) as f64 * 2^dropped`.

The conversion `u128 as f64` rounds to nearest, ties to even (Rust reference), and multiplying a
double by a power of two is exact unless it overflows: both are modelled by `rneAt`, rounding a
natural number at a given bit position.
-/
namespace TsrunVerif.RadixLit

/-- round `n` to a multiple of `2^e`: nearest, ties to the even multiple -/
def rneAt (e n : Nat) : Nat :=
  let q := n / 2 ^ e
  let r := n % 2 ^ e
  if 2 * r < 2 ^ e then q * 2 ^ e
  else if 2 ^ e < 2 * r then (q + 1) * 2 ^ e
  else if q % 2 = 0 then q * 2 ^ e else (q + 1) * 2 ^ e

structure Acc where
  m : Nat
  dropped : Nat
  sticky : Bool
  deriving Repr, DecidableEq, Inhabited

/-- one digit of the scan loop -/
def stepDigit (k : Nat) (a : Acc) (d : Nat) : Acc :=
  if a.m / 2 ^ 120 = 0 then { a with m := a.m * 2 ^ k + d }
  else { a with dropped := a.dropped + k, sticky := a.sticky || d != 0 }

def scan (k : Nat) (ds : List Nat) : Acc := ds.foldl (stepDigit k) ⟨0, 0, false⟩

/-- `mantissa |= 1` when a non-zero digit was dropped -/
def mant (a : Acc) : Nat := if a.sticky then a.m ||| 1 else a.m

/-- the integer the digits denote -/
def value (k : Nat) (ds : List Nat) : Nat := ds.foldl (fun a d => a * 2 ^ k + d) 0

/-- what the lexer computes, as an exact integer (for results below 2^1024): the mantissa rounded to
    53 significant bits (`j` = its bit length − 53), then scaled -/
def literal (k : Nat) (ds : List Nat) (j : Nat) : Nat :=
  rneAt j (mant (scan k ds)) * 2 ^ (scan k ds).dropped

end TsrunVerif.RadixLit
