/-
M-Heap — model of `/repo/src/gc.rs` (`Space`, `Heap`, `Guard`, `Gc`).

A slot is a `GcBox`: `payload`/`links` model the user data `T` (what `Traceable::trace`
visits and `Reset::reset` clears), `pooled` is `GcBox.pooled`.  `GcBox.ref_count` is not
modelled: after the `fix:` commit "stale handles no longer reset a recycled slot" it has no
influence on any observable behaviour (it is only incremented/decremented).

Transcription notes (Rust → Lean):
* chunks (`Vec<Vec<GcBox>>`, 256 per chunk) → one `List Slot`, index = chunk*256 + i
  (the chunk/bitmap addressing is the subject of `Props/C13.lean`, section "bitmap").
* `free_list: Vec<NonNull<GcBox>>`, `pop()` from the end → `free : List Nat`, newest LAST.
* `active_guards: Vec<Weak<GuardInner>>` → `guards : List GuardS` with an `alive` flag
  (a dead `Weak` = `alive = false`; pruning dead entries does not change behaviour).
* `mark`: explicit stack, `Space::mark` loop → `markLoop` (top of stack = head of list).
* `sweep`: two passes (reset, then pool in index order) → `sweep`.
* `alloc_internal`: `net_allocs += 1`, collect *before* allocating when the threshold is
  reached, reuse `free_list.pop()` else push a new box; `Guard::alloc` pushes the root.
-/
namespace TsrunVerif.Heap

structure Slot where
  payload : Nat
  links : List Nat
  pooled : Bool
  deriving Repr, DecidableEq, Inhabited

structure GuardS where
  alive : Bool
  roots : List Nat
  deriving Repr, DecidableEq, Inhabited

structure Heap where
  slots : List Slot
  free : List Nat
  guards : List GuardS
  netAllocs : Int
  threshold : Nat
  alive : Bool
  deriving Repr, DecidableEq, Inhabited

def Heap.init : Heap :=
  { slots := [], free := [], guards := [], netAllocs := 0, threshold := 100, alive := true }

def emptySlot : Slot := { payload := 0, links := [], pooled := false }

/-- `gc_box.pooled.get()`; an index outside the arena is treated as pooled (the Rust
marker skips `chunk_idx >= marked_chunks_len`). -/
def pooledAt (h : Heap) (i : Nat) : Bool :=
  match h.slots[i]? with
  | some s => s.pooled
  | none => true

/-- the children `trace` reports that the marker will consider: not pooled. -/
def succs (h : Heap) (i : Nat) : List Nat :=
  match h.slots[i]? with
  | some s => s.links.filter (fun j => !pooledAt h j)
  | none => []

/-- roots of all live guards that are not pooled (what `mark` pushes initially). -/
def rootsOf (h : Heap) : List Nat :=
  ((h.guards.filter (·.alive)).flatMap (·.roots)).filter (fun i => !pooledAt h i)

/-- the `while let Some(ptr) = stack.pop()` loop of `Space::mark`.  `none` = out of fuel. -/
def markLoop (h : Heap) : Nat → List Nat → List Nat → Option (List Nat)
  | 0, [], marked => some marked
  | 0, _ :: _, _ => none
  | _ + 1, [], marked => some marked
  | fuel + 1, i :: stack, marked =>
    if i ∈ marked then markLoop h fuel stack marked
    else markLoop h fuel ((succs h i).filter (fun j => !(marked.contains j)) ++ stack) (i :: marked)

/-- enough fuel for any run: every slot is marked at most once (1 + its out-degree new
stack entries) and every stack entry is popped once. -/
def outdeg (h : Heap) (i : Nat) : Nat :=
  match h.slots[i]? with
  | some s => s.links.length
  | none => 0

/-- work still to do: 1 + out-degree for every unmarked slot. -/
def weight (h : Heap) (marked : List Nat) : Nat :=
  (((List.range h.slots.length).filter (fun i => !(marked.contains i))).map (fun i => outdeg h i + 1)).sum

def markFuel (h : Heap) : Nat :=
  (rootsOf h).length + weight h [] + 1

def mark (h : Heap) : Option (List Nat) :=
  markLoop h (markFuel h) (rootsOf h) []

/-- `Space::sweep` given the mark set. -/
def sweepSlots (slots : List Slot) (marked : List Nat) : List Slot :=
  slots.mapIdx (fun i s => if s.pooled || marked.contains i then s
                           else { payload := 0, links := [], pooled := true })

def sweptIdx (slots : List Slot) (marked : List Nat) : List Nat :=
  (List.range slots.length).filter (fun i =>
    match slots[i]? with
    | some s => !s.pooled && !marked.contains i
    | none => false)

def sweep (h : Heap) (marked : List Nat) : Heap :=
  { h with slots := sweepSlots h.slots marked,
           free := h.free ++ sweptIdx h.slots marked,
           netAllocs := 0 }

/-- `Space::collect`.  (If the marker ran out of fuel — proved impossible for
`markFuel` in the runs the driver reports — nothing is swept.) -/
def collect (h : Heap) : Heap :=
  match mark h with
  | some m => sweep h m
  | none => h

/-- `GcStats`: (total_objects, pooled_objects, live_objects). -/
def stats (h : Heap) : Nat × Nat × Nat :=
  (h.slots.length, h.free.length, h.slots.length - h.free.length)

def setAt {α} (l : List α) (i : Nat) (f : α → α) : List α :=
  match l[i]? with
  | some a => l.set i (f a)
  | none => l

/-- first half of `Space::alloc_internal`: count, and collect *before* allocating when the
threshold is reached. -/
def allocPre (h : Heap) : Heap :=
  let h := { h with netAllocs := h.netAllocs + 1 }
  if h.threshold > 0 ∧ h.netAllocs ≥ (h.threshold : Int) then collect h else h

/-- second half: reuse `free_list.pop()` (reset, un-pool) or push a fresh box. -/
def allocCore (h : Heap) : Heap × Nat :=
  match h.free.getLast? with
  | some idx =>
    ({ h with free := h.free.dropLast, slots := setAt h.slots idx (fun _ => emptySlot) }, idx)
  | none => ({ h with slots := h.slots ++ [emptySlot] }, h.slots.length)

/-- `Space::alloc_internal` + the root push of `Guard::alloc`. Returns the slot index. -/
def alloc (h : Heap) (g : Nat) : Heap × Nat :=
  let r := allocCore (allocPre h)
  ({ r.1 with guards := setAt r.1.guards g (fun gd => { gd with roots := gd.roots ++ [r.2] }) }, r.2)

/-- `Vec::swap_remove(pos)`. -/
def swapRemove (l : List Nat) (pos : Nat) : List Nat :=
  match l.getLast? with
  | none => l
  | some last =>
    if pos + 1 = l.length then l.dropLast
    else (l.set pos last).dropLast

/-- position of the first occurrence. -/
def position (l : List Nat) (x : Nat) : Option Nat :=
  let i := l.idxOf x
  if i < l.length then some i else none

inductive Op where
  | mkGuard
  | dropGuard (g : Nat)
  | alloc (g : Nat)
  | guard (g : Nat) (slot : Nat)
  | unguard (g : Nat) (slot : Nat)
  | clear (g : Nat)
  | link (src dst : Nat)
  | unlink (src : Nat) (pos : Nat)
  | write (slot : Nat) (v : Nat)
  | collect
  | setThreshold (n : Nat)
  | dropHeap
  | handleOp            -- `Gc::clone` / `Gc::drop`: no modelled effect (ref_count only)
  deriving Repr, DecidableEq, Inhabited

/-- One public-API operation.  Handles are slot indices (a `Gc` is a pointer to its box). -/
def step (h : Heap) : Op → Heap
  | .mkGuard => { h with guards := h.guards ++ [{ alive := true, roots := [] }] }
  | .dropGuard g => { h with guards := setAt h.guards g (fun gd => { gd with alive := false }) }
  | .alloc g => if h.alive then (alloc h g).1 else h
  | .guard g s =>
    if h.alive && !pooledAt h s then
      { h with guards := setAt h.guards g (fun gd => { gd with roots := gd.roots ++ [s] }) }
    else h
  | .unguard g s =>
    { h with guards := setAt h.guards g (fun gd =>
        match position gd.roots s with
        | some p => { gd with roots := swapRemove gd.roots p }
        | none => gd) }
  | .clear g => { h with guards := setAt h.guards g (fun gd => { gd with roots := [] }) }
  | .link a b => if h.alive then { h with slots := setAt h.slots a (fun s => { s with links := s.links ++ [b] }) } else h
  | .unlink a p =>
    if h.alive then { h with slots := setAt h.slots a (fun s => { s with links := s.links.eraseIdx p }) } else h
  | .write a v => if h.alive then { h with slots := setAt h.slots a (fun s => { s with payload := v }) } else h
  | .collect => if h.alive then collect h else h
  | .setThreshold n => if h.alive then { h with threshold := n } else h
  | .dropHeap => { h with alive := false, slots := h.slots.map (fun s => { s with pooled := true }) }
  | .handleOp => h

def run (h : Heap) (ops : List Op) : Heap := ops.foldl step h

end TsrunVerif.Heap
