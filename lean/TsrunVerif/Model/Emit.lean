/-
M-Emit — TypeScript's run-time constructs: the JavaScript the TypeScript compiler is specified to
emit, and what tsrun's compiler does instead of emitting JavaScript.

Enums.  `emit` is the TypeScript emit
    var E; (function (E) { E[E["A"] = v] = "A"; … E["S"] = "s"; … })(E || (E = {}));
executed as a sequence of property writes on the object it starts from (the empty object, or the
object of an earlier declaration when declarations merge).  Auto values are the constants tsc
computes (previous numeric value + 1, 0 for the first member).
`lower` transcribes `Compiler::compile_enum_declaration` (/repo/src/compiler/compile_stmt.rs):
one register carries the previous member's value, a member without initialiser is that register
plus one (JavaScript `+`), the reverse entry is written when `typeof value === "number"` (always,
without test, for members without initialiser).

Namespaces.  `Ns.emitRun` is the emit's meaning - inside `namespace N` an exported variable `x`
*is* the property `N.x`, every block of a merged namespace sees all members exported so far,
locals are per block - and `Ns.aliasRun` transcribes `compile_namespace_declaration`: each block
opens a scope, declares an alias binding (`Op::DeclareAliasVar`) for every member exported by an
earlier block, and `export let x = e` declares `x`, copies it to `N.x` and re-declares `x` as an
alias of the property.

Parameter properties.  `ctorPrologue` is `this.x = x` for every parameter property in parameter
order (after `super(...)` in a derived class), as emitted by tsc and by `compile_constructor_body`.
-/
namespace TsrunVerif.Emit

/-- run-time value of an enum member -/
inductive EVal where
  | num (n : Int)
  | str (s : String)
  deriving Repr, DecidableEq, Inhabited

/-- property keys of an enum object: member names and (reverse mapping) numbers.  TypeScript rejects
numeric member names, so the two kinds never collide. -/
inductive Key where
  | name (s : String)
  | idx (n : Int)
  deriving Repr, DecidableEq, Inhabited

/-- what a property holds: a member value (forward) or a member name (reverse) -/
abbrev Obj := List (Key × EVal)

def Obj.get (o : Obj) (k : Key) : Option EVal :=
  match o with
  | [] => none
  | (k', v) :: rest => if k' = k then some v else Obj.get rest k

/-- property write: replace in place or append (insertion order of first write is kept) -/
def Obj.set (o : Obj) (k : Key) (v : EVal) : Obj :=
  match o with
  | [] => [(k, v)]
  | (k', v') :: rest => if k' = k then (k, v) :: rest else (k', v') :: Obj.set rest k v

inductive Init where
  | auto
  | val (v : EVal)          -- constant or computed initialiser, already evaluated
  deriving Repr, DecidableEq, Inhabited

structure Member where
  name : String
  init : Init
  deriving Repr, DecidableEq, Inhabited

/-- TypeScript accepts a member without initialiser only first or after a numeric member -/
def wellFormedFrom (prev : Option EVal) : List Member → Bool
  | [] => true
  | m :: ms =>
    match m.init with
    | .val v => wellFormedFrom (some v) ms
    | .auto =>
      match prev with
      | none => wellFormedFrom (some (.num 0)) ms
      | some (.num n) => wellFormedFrom (some (.num (n + 1))) ms
      | some (.str _) => false

def WellFormed (ms : List Member) : Prop := wellFormedFrom none ms = true

/-- one member of the TypeScript emit; `prev` is the constant tsc tracks -/
def emitStep (st : Obj × Option Int) (m : Member) : Obj × Option Int :=
  let v : EVal := match m.init with
    | .val v => v
    | .auto => match st.2 with
      | some n => .num (n + 1)
      | none => .num 0
  match v with
  | .num n => (((st.1.set (.name m.name) (.num n)).set (.idx n) (.str m.name)), some n)
  | .str s => (st.1.set (.name m.name) (.str s), none)

def emit (ms : List Member) (o : Obj) : Obj := (ms.foldl emitStep (o, none)).1

/-- JavaScript `+` of the previous value and 1, as the lowered code computes it -/
def jsPlusOne : EVal → EVal
  | .num n => .num (n + 1)
  | .str s => .str (s ++ "1")

/-- one member of tsrun's lowering; the second component is the value register (`none` before the
first member) -/
def lowerStep (st : Obj × Option EVal) (m : Member) : Obj × Option EVal :=
  match m.init with
  | .val v =>
    let o := st.1.set (.name m.name) v
    match v with
    | .num n => (o.set (.idx n) (.str m.name), some v)        -- typeof value === "number"
    | .str _ => (o, some v)
  | .auto =>
    let v : EVal := match st.2 with
      | some p => jsPlusOne p
      | none => .num 0
    let o := st.1.set (.name m.name) v
    -- reverse entry without a type test: E[value] = name (a string value would become a name key)
    match v with
    | .num n => (o.set (.idx n) (.str m.name), some v)
    | .str s => (o.set (.name s) (.str m.name), some v)

def lower (ms : List Member) (o : Obj) : Obj := (ms.foldl lowerStep (o, none)).1

/-! ### Namespaces -/
namespace Ns

inductive Expr where
  | lit (n : Int)
  | var (x : String)
  | add (a b : Expr)
  deriving Repr, DecidableEq, Inhabited

inductive Stmt where
  | exportVar (x : String) (e : Expr)     -- export let x = e
  | localVar (x : String) (e : Expr)      -- let x = e
  | assign (x : String) (e : Expr)        -- x = e
  deriving Repr, DecidableEq, Inhabited

abbrev Store := List (String × Int)

def Store.get (s : Store) (x : String) : Option Int :=
  match s with
  | [] => none
  | (y, v) :: rest => if y = x then some v else Store.get rest x

def Store.set (s : Store) (x : String) (v : Int) : Store :=
  match s with
  | [] => [(x, v)]
  | (y, w) :: rest => if y = x then (x, v) :: rest else (y, w) :: Store.set rest x v

/-- how a name resolves inside a block -/
inductive Res where
  | prop            -- the namespace object's property (an exported variable)
  | loc             -- a local of this block
  deriving Repr, DecidableEq, Inhabited

/-- emit semantics: tsc decides per identifier whether it names an export (rewritten to `N.x`) or a
local; unresolved names read as 0 (the model has no outer scope) -/
structure EmitSt where
  obj : Store                  -- the namespace object
  locals : Store               -- this block's locals
  res : List (String × Res)    -- resolution of declared names (innermost declaration wins)
  deriving Repr, DecidableEq, Inhabited

def resolve (r : List (String × Res)) (x : String) : Option Res :=
  match r with
  | [] => none
  | (y, k) :: rest => if y = x then some k else resolve rest x

def evalEmit (s : EmitSt) : Expr → Int
  | .lit n => n
  | .var x =>
    match resolve s.res x with
    | some .prop => (s.obj.get x).getD 0
    | some .loc => (s.locals.get x).getD 0
    | none => 0
  | .add a b => evalEmit s a + evalEmit s b

def stepEmit (s : EmitSt) : Stmt → EmitSt
  | .exportVar x e => { s with obj := s.obj.set x (evalEmit s e), res := (x, .prop) :: s.res }
  | .localVar x e => { s with locals := s.locals.set x (evalEmit s e), res := (x, .loc) :: s.res }
  | .assign x e =>
    match resolve s.res x with
    | some .prop => { s with obj := s.obj.set x (evalEmit s e) }
    | some .loc => { s with locals := s.locals.set x (evalEmit s e) }
    | none => s

/-- a block of a (merged) namespace: every member exported so far resolves to its property -/
def blockEmit (obj : Store) (exported : List String) (body : List Stmt) : EmitSt :=
  body.foldl stepEmit { obj := obj, locals := [], res := exported.map (fun x => (x, .prop)) }

/-- alias semantics (tsrun): the block scope maps names to bindings; a binding is a value or an
alias of the namespace object's property of the same name -/
inductive Binding where
  | val (v : Int)
  | alias
  deriving Repr, DecidableEq, Inhabited

structure AliasSt where
  obj : Store
  env : List (String × Binding)      -- most recent declaration first
  deriving Repr, DecidableEq, Inhabited

def lookupB (env : List (String × Binding)) (x : String) : Option Binding :=
  match env with
  | [] => none
  | (y, b) :: rest => if y = x then some b else lookupB rest x

def setB (env : List (String × Binding)) (x : String) (v : Int) : List (String × Binding) :=
  match env with
  | [] => []
  | (y, b) :: rest => if y = x then (y, .val v) :: rest else (y, b) :: setB rest x v

def evalAlias (s : AliasSt) : Expr → Int
  | .lit n => n
  | .var x =>
    match lookupB s.env x with
    | some .alias => (s.obj.get x).getD 0
    | some (.val v) => v
    | none => 0
  | .add a b => evalAlias s a + evalAlias s b

def stepAlias (s : AliasSt) : Stmt → AliasSt
  | .exportVar x e =>
    -- DeclareVar x = e; N.x = x; DeclareAliasVar x
    let v := evalAlias s e
    { obj := s.obj.set x v, env := (x, .alias) :: s.env }
  | .localVar x e => { s with env := (x, .val (evalAlias s e)) :: s.env }
  | .assign x e =>
    match lookupB s.env x with
    | some .alias => { s with obj := s.obj.set x (evalAlias s e) }
    | some (.val _) => { s with env := setB s.env x (evalAlias s e) }
    | none => s

def blockAlias (obj : Store) (exported : List String) (body : List Stmt) : AliasSt :=
  body.foldl stepAlias { obj := obj, env := exported.map (fun x => (x, .alias)) }

/-- names a block exports -/
def exportsOf : List Stmt → List String
  | [] => []
  | .exportVar x _ :: rest => x :: exportsOf rest
  | _ :: rest => exportsOf rest

/-- all blocks of a merged namespace, in order -/
def runEmit (blocks : List (List Stmt)) : Store × List String :=
  blocks.foldl (fun (acc : Store × List String) b =>
    ((blockEmit acc.1 acc.2 b).obj, acc.2 ++ exportsOf b)) ([], [])

def runAlias (blocks : List (List Stmt)) : Store × List String :=
  blocks.foldl (fun (acc : Store × List String) b =>
    ((blockAlias acc.1 acc.2 b).obj, acc.2 ++ exportsOf b)) ([], [])

end Ns

/-! ### Parameter properties -/

/-- `this.x = x` for every parameter property, in parameter order, on the object the constructor
starts from (fresh, or what `super(...)` returned) -/
def ctorPrologue (this : List (String × Int)) (props : List (String × Int)) : List (String × Int) :=
  props.foldl (fun o p => Ns.Store.set o p.1 p.2) this

end TsrunVerif.Emit
