/-
M-Pos — model of source positions and of the instruction → span map.

* `adv` / `posAfter`: `Lexer::advance` (`/repo/src/lexer.rs`): line terminators are LF, LS
  (U+2028) and PS (U+2029); CR, TAB and every other character advance the column by one
  (columns count code points, 1-based).
* `emit`: `BytecodeBuilder::emit` + `set_span`/`clear_span` (`/repo/src/compiler/builder.rs`):
  a source-map entry `(instruction index, span)` is pushed when the current span starts at a
  different offset than the last entry's span.
* `lookup`: `BytecodeChunk::get_source_location` (`/repo/src/compiler/bytecode.rs`), specified
  as "the last entry whose offset is ≤ the instruction index" (the Rust code finds it by binary
  search over the offset-sorted entries).
* `buildTrace`: `BytecodeVM::build_stack_trace`: current frame, then the trampoline frames from
  the most recent to the oldest, each looked up at `ip - 1` (saturating).
-/
namespace TsrunVerif.Pos

structure Pos where
  line : Nat
  col : Nat
  deriving Repr, DecidableEq, Inhabited

def isLT (c : Char) : Bool := c == '\n' || c == '\u2028' || c == '\u2029'

def adv (p : Pos) (c : Char) : Pos :=
  if isLT c then { line := p.line + 1, col := 1 } else { line := p.line, col := p.col + 1 }

def posFrom (p : Pos) (w : List Char) : Pos := w.foldl adv p

/-- position of the character that follows the prefix `w` of the source. -/
def posAfter (w : List Char) : Pos := posFrom { line := 1, col := 1 } w

structure Span where
  start : Nat
  line : Nat
  col : Nat
  deriving Repr, DecidableEq, Inhabited

structure Entry where
  offset : Nat
  span : Span
  deriving Repr, DecidableEq, Inhabited

structure Builder where
  codeLen : Nat
  map : List Entry
  cur : Option Span
  deriving Repr, Inhabited

def Builder.init : Builder := { codeLen := 0, map := [], cur := none }

inductive BOp where
  | setSpan (s : Span)
  | clearSpan
  | emit
  deriving Repr, Inhabited

def lastStart (m : List Entry) : Option Nat := (m.getLast?).map (·.span.start)

def emit (b : Builder) : Builder :=
  let map' := match b.cur with
    | some sp => if lastStart b.map = some sp.start then b.map else b.map ++ [{ offset := b.codeLen, span := sp }]
    | none => b.map
  { b with codeLen := b.codeLen + 1, map := map' }

def bstep (b : Builder) : BOp → Builder
  | .setSpan s => { b with cur := some s }
  | .clearSpan => { b with cur := none }
  | .emit => emit b

/-- `get_source_location`. -/
def lookup (m : List Entry) (off : Nat) : Option Span :=
  ((m.filter (fun e => e.offset ≤ off)).getLast?).map (·.span)

structure Frame where
  name : Option String
  map : List Entry
  ip : Nat
  deriving Repr, Inhabited

/-- `build_stack_trace`: (function name, line, column) per frame, innermost first; frames
without a source-map hit are skipped (as the Rust code does). -/
def buildTrace (current : Frame) (trampoline : List Frame) : List (Option String × Nat × Nat) :=
  (current :: trampoline.reverse).filterMap (fun f =>
    (lookup f.map (f.ip - 1)).map (fun sp => (f.name, sp.line, sp.col)))

end TsrunVerif.Pos
