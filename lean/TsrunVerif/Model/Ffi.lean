/-
M-Ffi — handle discipline of the C API (src/ffi): contexts, value boxes, object contents.

A `TsRunValue*` is a box owning a value and (for objects) a guard; it is created by the API for a
context and stays valid until `tsrun_value_free`, also after its context is gone (primitives keep
their payload; `Gc` handles tolerate a dropped heap, see C13).  Every entry point checks its
pointer arguments for NULL and reports misuse through its result.  The model keeps the caller's
view: slots for contexts and values (NULL slots included), the object store, and for every
operation the result token the API returns and the set of heap objects it reads or writes
(`touches`) - which must all be alive.

Only the data plane is modelled (constructors, typeof/getters, properties, arrays, globals, dup,
free, context free, NULL arguments); running scripts, natives, modules and orders are exercised on
the implementation only.
-/
namespace TsrunVerif.Ffi

inductive Prim where
  | undef
  | null
  | bool (b : Bool)
  | num (n : Int)
  | str (s : String)
  | obj (id : Nat)        -- plain object
  | arr (id : Nat)        -- array
  deriving Repr, DecidableEq, Inhabited

/-- contents of a heap object: owner context, liveness, properties (insertion order), elements -/
structure Obj where
  id : Nat
  ctx : Nat
  isArr : Bool
  props : List (String × Prim)
  elems : List Prim
  deriving Repr, DecidableEq, Inhabited

structure St where
  ctxAlive : List Bool                 -- context slots
  vals : List (Option Prim)            -- value slots: none = NULL pointer or released box
  objs : List Obj                      -- all heap objects ever created
  globals : List (Nat × String × Prim) -- (ctx, name, value)
  deriving Repr, DecidableEq, Inhabited

def St.init : St := { ctxAlive := [], vals := [], objs := [], globals := [] }

inductive Op where
  | ctxNew
  | ctxFree (c : Int)
  | mk (c : Int) (p : Prim)            -- undefined / null / boolean / number / string constructors
  | objNew (c : Int)
  | arrNew (c : Int)
  | free (v : Int)
  | dup (c : Int) (v : Int)
  | typeOf (v : Int)
  | getNum (v : Int)
  | getStr (v : Int)
  | get (c : Int) (o : Int) (key : Option String)
  | set (c : Int) (o : Int) (key : Option String) (v : Int)
  | has (c : Int) (o : Int) (key : Option String)
  | del (c : Int) (o : Int) (key : Option String)
  | keys (c : Int) (o : Int)
  | alen (a : Int)
  | aget (c : Int) (a : Int) (i : Nat)
  | aset (c : Int) (a : Int) (i : Nat) (v : Int)
  | apush (c : Int) (a : Int) (v : Int)
  | gget (c : Int) (name : Option String)
  | gset (c : Int) (name : Option String) (v : Int)
  deriving Repr, DecidableEq, Inhabited

/-- a context argument: negative = NULL pointer -/
def ctxOk (s : St) (c : Int) : Bool :=
  if c < 0 then false else (s.ctxAlive.getD c.toNat false)

def objIdOf : Prim → Option Nat
  | .obj id => some id
  | .arr id => some id
  | _ => none

def findObj (s : St) (id : Nat) : Option Obj := s.objs.find? (fun o => o.id = id)

/-- an object whose context has been released must never be dereferenced: its box reads as
`undefined` (`TsRunValue::value`) -/
def sanitize (s : St) (p : Prim) : Prim :=
  match objIdOf p >>= findObj s with
  | some ob => if s.ctxAlive.getD ob.ctx false then p else .undef
  | none => p

/-- a value argument: negative = NULL pointer; released boxes are never passed by a well-behaved caller -/
def valOf (s : St) (v : Int) : Option Prim :=
  if v < 0 then none else (s.vals.getD v.toNat none).map (sanitize s)

/-- objects can only be used with the context whose heap they live in (`TsRunContext::owns`) -/
def owns (s : St) (c : Int) (p : Prim) : Bool :=
  match objIdOf p >>= findObj s with
  | some ob => decide ((ob.ctx : Int) = c)
  | none => true

def typeName : Prim → String
  | .undef => "undefined"
  | .null => "null"
  | .bool _ => "boolean"
  | .num _ => "number"
  | .str _ => "string"
  | .obj _ => "object"
  | .arr _ => "object"

def updObj (s : St) (id : Nat) (f : Obj → Obj) : St :=
  { s with objs := s.objs.map (fun o => if o.id = id then f o else o) }

def lookupP (ps : List (String × Prim)) (k : String) : Option Prim :=
  match ps with
  | [] => none
  | (k', v) :: rest => if k' = k then some v else lookupP rest k

def setP (ps : List (String × Prim)) (k : String) (v : Prim) : List (String × Prim) :=
  match ps with
  | [] => [(k, v)]
  | (k', v') :: rest => if k' = k then (k, v) :: rest else (k', v') :: setP rest k v

/-- canonical array index of a property key ("0", "17"; not "01", "-1", "1.0") -/
def asIndex (k : String) : Option Nat :=
  match k.toNat? with
  | some n => if toString n = k then some n else none
  | none => none

def setElem (es : List Prim) (i : Nat) (v : Prim) : List Prim :=
  if i < es.length then es.set i v else es ++ List.replicate (i - es.length) Prim.undef ++ [v]

def showPrim : Prim → String
  | .undef => "undefined"
  | .null => "null"
  | .bool b => toString b
  | .num n => toString n
  | .str s => "s:" ++ s
  | .obj _ => "object"
  | .arr _ => "array"

def newVal (s : St) (p : Prim) : St × String :=
  ({ s with vals := s.vals ++ [some p] }, s!"v{s.vals.length}:{typeName p}")

def nullVal (s : St) (msg : String) : St × String :=
  ({ s with vals := s.vals ++ [none] }, "err:" ++ msg)

/-- heap objects an operation reads or writes -/
def touches (s : St) : Op → List Nat
  | .get _ o _ | .set _ o _ _ | .has _ o _ | .del _ o _ | .keys _ o | .alen o | .aget _ o _ | .aset _ o _ _ | .apush _ o _ =>
    match valOf s o with
    | some p => (objIdOf p).toList
    | none => []
  | _ => []

def step (s : St) : Op → St × String
  | .ctxNew => ({ s with ctxAlive := s.ctxAlive ++ [true] }, s!"c{s.ctxAlive.length}")
  | .ctxFree c =>
    if ctxOk s c then ({ s with ctxAlive := s.ctxAlive.set c.toNat false }, "ok") else (s, "ok")
  | .mk c p => if ctxOk s c then newVal s p else ({ s with vals := s.vals ++ [none] }, "null")
  | .objNew c =>
    if ctxOk s c then
      let id := s.objs.length
      newVal { s with objs := s.objs ++ [{ id := id, ctx := c.toNat, isArr := false, props := [], elems := [] }] } (.obj id)
    else nullVal s "NULL context"
  | .arrNew c =>
    if ctxOk s c then
      let id := s.objs.length
      newVal { s with objs := s.objs ++ [{ id := id, ctx := c.toNat, isArr := true, props := [], elems := [] }] } (.arr id)
    else nullVal s "NULL context"
  | .free v =>
    if v < 0 then (s, "ok") else ({ s with vals := s.vals.set v.toNat none }, "ok")
  | .dup c v =>
    if ctxOk s c then
      match valOf s v with
      | some p => newVal s (if owns s c p then p else .undef)
      | none => ({ s with vals := s.vals ++ [none] }, "null")
    else ({ s with vals := s.vals ++ [none] }, "null")
  | .typeOf v => (s, match valOf s v with | some p => typeName p | none => "undefined")
  | .getNum v => (s, match valOf s v with | some (.num n) => toString n | _ => "NaN")
  | .getStr v => (s, match valOf s v with | some (.str t) => "s:" ++ t | _ => "null")
  | .get c o key =>
    if !ctxOk s c then nullVal s "NULL context" else
    match valOf s o with
    | none => nullVal s "NULL object"
    | some p =>
      if !owns s c p then nullVal s "Value belongs to another context" else
      match key with
      | none => nullVal s "Invalid or NULL key"
      | some k =>
        match objIdOf p >>= findObj s with
        | none => nullVal s "Value is not an object"
        | some ob =>
          let r : Prim :=
            if ob.isArr then
              (if k = "length" then Prim.num ob.elems.length
               else match asIndex k with
                 | some i => ob.elems.getD i Prim.undef
                 | none => (lookupP ob.props k).getD Prim.undef)
            else (lookupP ob.props k).getD Prim.undef
          newVal s r
  | .set c o key v =>
    if !ctxOk s c then (s, "err:NULL context") else
    match valOf s o with
    | none => (s, "err:NULL object")
    | some p =>
      if !owns s c p then (s, "err:Value belongs to another context") else
      match key with
      | none => (s, "err:Invalid or NULL key")
      | some k =>
        match valOf s v with
        | none => (s, "err:NULL value")
        | some w =>
          if !owns s c w then (s, "err:Value belongs to another context") else
          match objIdOf p >>= findObj s with
          | none => (s, "err:Value is not an object")
          | some ob =>
            if ob.isArr then
              match asIndex k with
              | some i => (updObj s ob.id (fun o => { o with elems := setElem o.elems i w }), "ok")
              | none => (updObj s ob.id (fun o => { o with props := setP o.props k w }), "ok")
            else (updObj s ob.id (fun o => { o with props := setP o.props k w }), "ok")
  | .has c o key =>
    if !ctxOk s c then (s, "false") else
    match valOf s o, key with
    | some p, some k =>
      if !owns s c p then (s, "false") else
      (match objIdOf p >>= findObj s with
       | none => (s, "false")
       | some ob =>
         let r := if ob.isArr then
             (k = "length") || (match asIndex k with | some i => decide (i < ob.elems.length) | none => (lookupP ob.props k).isSome)
           else (lookupP ob.props k).isSome
         (s, toString r))
    | _, _ => (s, "false")
  | .del c o key =>
    if !ctxOk s c then (s, "err:NULL context") else
    match valOf s o with
    | none => (s, "err:NULL object")
    | some p =>
      if !owns s c p then (s, "err:Value belongs to another context") else
      match key with
      | none => (s, "err:Invalid or NULL key")
      | some k =>
        match objIdOf p >>= findObj s with
        | none => (s, "err:Value is not an object")
        | some ob => (updObj s ob.id (fun o => { o with props := o.props.filter (fun q => q.1 != k) }), "ok")
  | .keys c o =>
    if !ctxOk s c then (s, "null") else
    match valOf s o with
    | some p =>
      if !owns s c p then (s, "null") else
      (match objIdOf p >>= findObj s with
       | some ob => (s, if ob.props.isEmpty then "null" else "k:" ++ ",".intercalate (ob.props.map (·.1)))
       | none => (s, "null"))
    | none => (s, "null")
  | .alen a =>
    (s, match valOf s a with
        | some p => (match objIdOf p >>= findObj s with
                     | some ob => if ob.isArr then toString ob.elems.length else "0"
                     | none => "0")
        | none => "0")
  | .aget c a i =>
    if !ctxOk s c then nullVal s "NULL context" else
    match valOf s a with
    | none => nullVal s "NULL array"
    | some p =>
      if !owns s c p then nullVal s "Value belongs to another context" else
      match objIdOf p >>= findObj s with
      | some ob => if ob.isArr then newVal s (ob.elems.getD i Prim.undef) else nullVal s "Value is not an array"
      | none => nullVal s "Value is not an object"
  | .aset c a i v =>
    if !ctxOk s c then (s, "err:NULL context") else
    match valOf s a with
    | none => (s, "err:NULL array")
    | some p =>
      if !owns s c p then (s, "err:Value belongs to another context") else
      match valOf s v with
      | none => (s, "err:NULL value")
      | some w =>
        if !owns s c w then (s, "err:Value belongs to another context") else
        match objIdOf p >>= findObj s with
        | some ob => if ob.isArr then (updObj s ob.id (fun o => { o with elems := setElem o.elems i w }), "ok") else (s, "err:Value is not an array")
        | none => (s, "err:Value is not an object")
  | .apush c a v =>
    if !ctxOk s c then (s, "err:NULL context") else
    match valOf s a with
    | none => (s, "err:NULL array")
    | some p =>
      if !owns s c p then (s, "err:Value belongs to another context") else
      match valOf s v with
      | none => (s, "err:NULL value")
      | some w =>
        if !owns s c w then (s, "err:Value belongs to another context") else
        match objIdOf p >>= findObj s with
        | some ob => if ob.isArr then (updObj s ob.id (fun o => { o with elems := o.elems ++ [w] }), "ok") else (s, "err:Value is not an array")
        | none => (s, "err:Value is not an object")
  | .gget c name =>
    if !ctxOk s c then nullVal s "NULL context" else
    match name with
    | none => nullVal s "Invalid or NULL name"
    | some n =>
      newVal s ((s.globals.find? (fun g => g.1 = c.toNat && g.2.1 = n)).map (·.2.2) |>.getD Prim.undef)
  | .gset c name v =>
    if !ctxOk s c then (s, "err:NULL context") else
    match name with
    | none => (s, "err:Invalid or NULL name")
    | some n =>
      match valOf s v with
      | none => (s, "err:NULL value")
      | some w =>
        if !owns s c w then (s, "err:Value belongs to another context") else
        ({ s with globals := (c.toNat, n, w) :: s.globals.filter (fun g => !(g.1 = c.toNat && g.2.1 = n)) }, "ok")

def run (ops : List Op) : St × List String :=
  ops.foldl (fun (acc : St × List String) op => let r := step acc.1 op; (r.1, acc.2 ++ [r.2])) (St.init, [])

/-- every object a value slot refers to exists in the store -/
def WellFormed (s : St) : Prop :=
  (∀ p ∈ s.vals, ∀ q, p = some q → ∀ id, objIdOf q = some id → id < s.objs.length) ∧
  (∀ i, (h : i < s.objs.length) → (s.objs[i]).id = i) ∧
  (∀ o ∈ s.objs, (∀ kv ∈ o.props, ∀ id, objIdOf kv.2 = some id → id < s.objs.length) ∧
                 (∀ e ∈ o.elems, ∀ id, objIdOf e = some id → id < s.objs.length)) ∧
  (∀ g ∈ s.globals, ∀ id, objIdOf g.2.2 = some id → id < s.objs.length)

end TsrunVerif.Ffi
