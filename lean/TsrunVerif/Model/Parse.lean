/-
M-Parse — work and stack use of a recursive-descent front end with speculative parses.

A source text is abstracted to its nesting skeleton `Sk` (every bracketed / nested construct is a
node whose children are the constructs nested directly inside it).

* `costNaive`: a speculative construct is parsed as one alternative, rolled back and parsed again
  as the other alternative, and so is everything nested inside it on both passes - what
  `parse_parenthesized_or_arrow` did before (try the arrow-parameter list, roll back, parse the
  parenthesised expression).
* `costFirst` / `costAgain`: tsrun's parser now remembers every `(` found not to start an arrow
  function (`Parser::no_arrow_at`): the first visit of a construct attempts the alternative (which
  visits the nested constructs for the first time), records the failure, and re-parses the
  content with every nested decision already known (`costAgain`, one pass).
* `parseG`: the recursion carries a depth and refuses to go deeper than a limit
  (`Parser::check_depth` / `Compiler::check_depth`; the real limit is a stack-address budget, the
  model counts levels).
* `leftDeep`: operator / member / call chains are built by loops; the tree they build has one
  level per link, which later traversals recurse over (`Parser::MAX_CHAIN`).
-/
namespace TsrunVerif.Parse

inductive Sk where
  | node (children : List Sk)
  deriving Repr, Inhabited

mutual
def size : Sk → Nat
  | .node cs => 1 + sizes cs
def sizes : List Sk → Nat
  | [] => 0
  | c :: cs => size c + sizes cs
end

mutual
def depth : Sk → Nat
  | .node cs => 1 + depths cs
def depths : List Sk → Nat
  | [] => 0
  | c :: cs => max (depth c) (depths cs)
end

mutual
def costNaive : Sk → Nat
  | .node cs => 1 + 2 * costNaives cs
def costNaives : List Sk → Nat
  | [] => 0
  | c :: cs => costNaive c + costNaives cs
end

mutual
def costAgain : Sk → Nat
  | .node cs => 1 + costAgains cs
def costAgains : List Sk → Nat
  | [] => 0
  | c :: cs => costAgain c + costAgains cs
end

mutual
def costFirst : Sk → Nat
  | .node cs => 1 + costFirsts cs + costAgains cs
def costFirsts : List Sk → Nat
  | [] => 0
  | c :: cs => costFirst c + costFirsts cs
end

/-- `k` constructs nested in each other -/
def chain : Nat → Sk
  | 0 => .node []
  | k + 1 => .node [chain k]

mutual
/-- guarded descent from recursion level `d`: succeeds iff no level beyond `limit` is entered -/
def parseG (limit : Nat) (d : Nat) : Sk → Bool
  | .node cs => decide (d ≤ limit) && parseGs limit (d + 1) cs
def parseGs (limit : Nat) (d : Nat) : List Sk → Bool
  | [] => true
  | c :: cs => parseG limit d c && parseGs limit d cs
end

mutual
/-- deepest recursion level the guarded descent actually enters -/
def reached (limit : Nat) (d : Nat) : Sk → Nat
  | .node cs => if d ≤ limit then max d (reacheds limit (d + 1) cs) else d
def reacheds (limit : Nat) (d : Nat) : List Sk → Nat
  | [] => 0
  | c :: cs => max (reached limit d c) (reacheds limit d cs)
end

/-- the tree a loop builds for a chain of `n` links (`a + b + c …`): left-deep, one level per link -/
def leftDeep : Nat → Sk
  | 0 => .node []
  | n + 1 => .node [leftDeep n, .node []]

end TsrunVerif.Parse
