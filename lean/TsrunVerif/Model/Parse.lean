/-
M-Parse — work and stack use of a recursive-descent front end with speculative parses.

A source text is abstracted to its nesting skeleton `Sk` (every bracketed / nested construct is a
node whose children are the constructs nested directly inside it).

* `costNaive`: a speculative construct is parsed as one alternative, rolled back and parsed again
  as the other alternative, and so is everything nested inside it on both passes - what
  `parse_parenthesized_or_arrow` did before (try the arrow-parameter list, roll back, parse the
  parenthesised expression).
* `costFirst` / `costAgain`: tsrun's parser now remembers every `(` found not to start an arrow
  function (`Parser::no_arrow_at`): the first visit of a construct attempts the alternative (which
  visits the nested constructs for the first time), records the failure, and re-parses the
  content with every nested decision already known (`costAgain`, one pass).
* `parseG`: the recursion carries a depth and refuses to go deeper than a limit
  (`Parser::check_depth` / `Compiler::check_depth`; the real limit is a stack-address budget, the
  model counts levels).
* `leftDeep`: operator / member / call chains are built by loops; the tree they build has one
  level per link, which later traversals recurse over (`Parser::MAX_CHAIN`).
-/
namespace TsrunVerif.Parse

inductive Sk where
  | node (children : List Sk)
  deriving Repr, Inhabited

mutual
def size : Sk → Nat
  | .node cs => 1 + sizes cs
def sizes : List Sk → Nat
  | [] => 0
  | c :: cs => size c + sizes cs
end

mutual
def depth : Sk → Nat
  | .node cs => 1 + depths cs
def depths : List Sk → Nat
  | [] => 0
  | c :: cs => max (depth c) (depths cs)
end

mutual
def costNaive : Sk → Nat
  | .node cs => 1 + 2 * costNaives cs
def costNaives : List Sk → Nat
  | [] => 0
  | c :: cs => costNaive c + costNaives cs
end

mutual
def costAgain : Sk → Nat
  | .node cs => 1 + costAgains cs
def costAgains : List Sk → Nat
  | [] => 0
  | c :: cs => costAgain c + costAgains cs
end

mutual
def costFirst : Sk → Nat
  | .node cs => 1 + costFirsts cs + costAgains cs
def costFirsts : List Sk → Nat
  | [] => 0
  | c :: cs => costFirst c + costFirsts cs
end

/-- `k` constructs nested in each other -/
def chain : Nat → Sk
  | 0 => .node []
  | k + 1 => .node [chain k]

mutual
/-- guarded descent from recursion level `d`: succeeds iff no level beyond `limit` is entered -/
def parseG (limit : Nat) (d : Nat) : Sk → Bool
  | .node cs => decide (d ≤ limit) && parseGs limit (d + 1) cs
def parseGs (limit : Nat) (d : Nat) : List Sk → Bool
  | [] => true
  | c :: cs => parseG limit d c && parseGs limit d cs
end

mutual
/-- deepest recursion level the guarded descent actually enters -/
def reached (limit : Nat) (d : Nat) : Sk → Nat
  | .node cs => if d ≤ limit then max d (reacheds limit (d + 1) cs) else d
def reacheds (limit : Nat) (d : Nat) : List Sk → Nat
  | [] => 0
  | c :: cs => max (reached limit d c) (reacheds limit d cs)
end

/-- the tree a loop builds for a chain of `n` links (`a + b + c …`): left-deep, one level per link -/
def leftDeep : Nat → Sk
  | 0 => .node []
  | n + 1 => .node [leftDeep n, .node []]

/-! ### loop-built chains inside nested constructs (`Parser::chain_link`, `Parser::chain_scope`)

`leftDeep` bounds one chain; chains also stack through the heads of chains in nested constructs
(`((x.a.a…).a.a…).a.a…`): the tree is as deep as all of them together although the parser's recursion
is only as deep as the nesting.  The parser therefore counts links per accounting scope
(`chain_links`) plus the largest total of the scopes nested in it that are complete (`nested_links`)
and refuses a link when the sum exceeds `MAX_CHAIN`. -/

/-- trees as recursion and loops build them together: `wrap` is a recursive construct (parentheses,
array, call arguments, function body, …) whose children are parsed as accounting scopes of their
own; `chain` is a loop-built left-deep chain: a head, then one link per operand (`a.b`, `a + b`,
`f(x)`), the operands parsed in the scope of the chain. -/
inductive Tr where
  | leaf
  | wrap (cs : List Tr)
  | chain (head : Tr) (ops : List Tr)
  deriving Repr, Inhabited

mutual
/-- depth of the tree (what compilation and release recurse over): every link of a chain puts one
    more node above everything parsed before it -/
def tdepth : Tr → Nat
  | .leaf => 1
  | .wrap cs => 1 + tdepths cs
  | .chain h ops => spine (tdepth h) ops
def tdepths : List Tr → Nat
  | [] => 0
  | c :: cs => max (tdepth c) (tdepths cs)
def spine (d : Nat) : List Tr → Nat
  | [] => d
  | o :: os => spine (1 + max d (tdepth o)) os
end

mutual
/-- recursion depth of the parser on the same tree (what `check_depth` bounds): loops add none -/
def rdepth : Tr → Nat
  | .leaf => 1
  | .wrap cs => 1 + rdepths cs
  | .chain h ops => max (rdepth h) (1 + rdepths ops)
def rdepths : List Tr → Nat
  | [] => 0
  | c :: cs => max (rdepth c) (rdepths cs)
end

mutual
/-- the parser's accounting: state `(chain_links, nested_links)`; `none` = "Expression chain is too long" -/
def scan (M : Nat) : Tr → Nat × Nat → Option (Nat × Nat)
  | .leaf, st => some st
  | .wrap cs, st => scanScopes M cs st
  | .chain h ops, st =>
    match scan M h st with
    | none => none
    | some st1 => scanLinks M ops st1
/-- `chain_scope`: a child is counted from zero and contributes its total by maximum -/
def scanScopes (M : Nat) : List Tr → Nat × Nat → Option (Nat × Nat)
  | [], st => some st
  | c :: cs, st =>
    match scan M c (0, 0) with
    | none => none
    | some tot => scanScopes M cs (st.1, max st.2 (tot.1 + tot.2))
/-- `chain_link` before every operand of the loop -/
def scanLinks (M : Nat) : List Tr → Nat × Nat → Option (Nat × Nat)
  | [], st => some st
  | o :: os, st =>
    if st.1 + 1 + st.2 > M then none
    else match scan M o (st.1 + 1, st.2) with
      | none => none
      | some st' => scanLinks M os st'
end

/-- `d` groups nested in each other, each the head of a chain of `k` links: the family that the
    per-loop limit let through -/
def nestedChains (k : Nat) : Nat → Tr
  | 0 => .leaf
  | d + 1 => .chain (.wrap [nestedChains k d]) (List.replicate k .leaf)

end TsrunVerif.Parse
