/-!
# M-Obj — ordinary objects: prototype chain lookup, for-in enumeration, bound functions

Transcribed from `JsObject::get_property` / `get_property_descriptor` (the loop over the prototype
chain), `Op::GetKeysIterator` (for-in) and the bound-function unwrapping loops of
`setup_trampoline_call` / `Op::Construct` / `Op::Instanceof` in /repo/src.  An object is a list of own
properties (key, value, enumerable) in own-key order; a receiver is given as its prototype chain,
nearest first.  Core Lean only.
-/
namespace TsrunVerif.Obj

structure PropE where
  key : String
  val : Int
  enumerable : Bool
  deriving Repr, DecidableEq, Inhabited

/-- an object: its own properties in own-key order (keys distinct) -/
abbrev O := List PropE

/-- own lookup -/
def own (o : O) (k : String) : Option PropE := o.find? (·.key == k)

/-- `[[Get]]` of a data property: the nearest object of the chain that has the key decides -/
def lookup : List O → String → Option Int
  | [], _ => none
  | o :: rest, k =>
    match own o k with
    | some p => some p.val
    | none => lookup rest k

/-- `k in obj` (HasProperty) -/
def has (chain : List O) (k : String) : Bool := chain.any (fun o => (own o k).isSome)

/-- for-in: own keys of each object of the chain in turn; a key seen nearer - enumerable or not -
    hides the same key further up; only enumerable properties are reported -/
def forIn : List O → List String → List String
  | [], _ => []
  | o :: rest, seen =>
    let fresh := o.filter (fun p => !seen.contains p.key)
    (fresh.filter (·.enumerable)).map (·.key) ++ forIn rest (seen ++ fresh.map (·.key))

def forInKeys (chain : List O) : List String := forIn chain []

/-! ### bound functions -/

/-- a callable: a target (identified by a number) or a bound function over another callable -/
inductive Fn where
  | target (id : Nat)
  | bound (f : Fn) (thisArg : Option Int) (args : List Int)
  deriving Repr, Inhabited

/-- what a call finally invokes: target, `this`, full argument list.  Every layer puts its bound
    arguments in front; the INNERMOST bound `this` wins (an outer `bind` cannot rebind it) -/
def resolveCall : Fn → Option Int → List Int → Nat × Option Int × List Int
  | .target id, this, args => (id, this, args)
  | .bound f t bargs, _, args => resolveCall f t (bargs ++ args)

/-- what `new` finally constructs: target and full argument list (`this` is the new object) -/
def resolveNew : Fn → List Int → Nat × List Int
  | .target id, args => (id, args)
  | .bound f _ bargs, args => resolveNew f (bargs ++ args)

/-- the function whose `prototype` `instanceof` consults -/
def instanceTarget : Fn → Nat
  | .target id => id
  | .bound f _ _ => instanceTarget f

/-- all bound arguments, outermost layer last -/
def boundArgs : Fn → List Int
  | .target _ => []
  | .bound f _ bargs => boundArgs f ++ bargs

def depth : Fn → Nat
  | .target _ => 0
  | .bound f _ _ => depth f + 1

end TsrunVerif.Obj
