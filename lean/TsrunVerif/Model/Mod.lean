/-
M-Mod — model of the module loader (`/repo/src/interpreter/mod.rs`: `prepare`,
`setup_vm_from_program`, `process_pending_modules`, `execute_pending_module`,
`provide_module`, `filter_missing_imports`, `filter_unprovided_imports`,
`dedupe_import_requests`).

Modules are numbers (the driver maps resolved paths — computed with M-Path.resolve — to
numbers); `deps m` are the resolved imports of module `m` in source order.

* `loaded`  = `loaded_modules` in execution order (this is also the execution log),
* `pending` = keys of `pending_module_sources` (supplied, not yet executed).  The Rust map is an
  `FxHashMap`: the order in which ready modules of one round are executed is not determined by
  the program, so it is a *parameter* `perm` of the model (any permutation).
-/
namespace TsrunVerif.Mod

structure St where
  loaded : List Nat
  pending : List Nat
  deriving Repr, DecidableEq, Inhabited

/-- all imports loaded and the module itself not yet loaded (`missing_from_loaded.is_empty()`
after the "skip if already loaded" test). -/
def isReady (deps : Nat → List Nat) (st : St) (m : Nat) : Bool :=
  !st.loaded.contains m && (deps m).all (fun d => st.loaded.contains d)

def readyList (deps : Nat → List Nat) (st : St) : List Nat :=
  st.pending.filter (isReady deps st)

def dedupe : List Nat → List Nat
  | [] => []
  | x :: t => x :: (dedupe t).filter (· != x)

/-- imports that the host still has to supply (neither loaded nor pending), over all pending
modules that are not ready; each once. -/
def unprovided (deps : Nat → List Nat) (st : St) : List Nat :=
  dedupe ((st.pending.filter (fun m => !st.loaded.contains m && !isReady deps st m)).flatMap
    (fun m => (deps m).filter (fun d => !st.loaded.contains d && !st.pending.contains d)))

/-- one pass of the `loop` in `process_pending_modules` that found ready modules: execute all
of them (in the order `perm` gives), remove them from `pending`. -/
def round (deps : Nat → List Nat) (perm : List Nat → List Nat) (st : St) : St :=
  let r := readyList deps st
  { loaded := st.loaded ++ perm r, pending := st.pending.filter (fun m => !r.contains m) }

/-- `process_pending_modules`: rounds until nothing is ready. -/
def process (deps : Nat → List Nat) (perm : List Nat → List Nat) : Nat → St → St
  | 0, st => st
  | fuel + 1, st => if readyList deps st = [] then st else process deps perm fuel (round deps perm st)

/-- `provide_module`: insert/replace the key. -/
def provide (st : St) (m : Nat) : St :=
  if st.pending.contains m then st else { st with pending := st.pending ++ [m] }

/-- imports of the entry program that the host must supply first
(`filter_unprovided_imports` + `dedupe_import_requests`). -/
def mainUnprovided (mainDeps : List Nat) (st : St) : List Nat :=
  dedupe (mainDeps.filter (fun d => !st.loaded.contains d && !st.pending.contains d))

/-- imports of the entry program not yet loaded (`filter_missing_imports` + dedupe). -/
def mainMissing (mainDeps : List Nat) (st : St) : List Nat :=
  dedupe (mainDeps.filter (fun d => !st.loaded.contains d))

inductive Outcome where
  | need (reqs : List Nat)      -- StepResult::NeedImports
  | run                         -- the entry program starts executing
  deriving Repr, DecidableEq, Inhabited

/-- `setup_vm_from_program` (what a `step()` does while the entry program is pending). -/
def setupMain (deps : Nat → List Nat) (perm : List Nat → List Nat) (mainDeps : List Nat) (st : St) : St × Outcome :=
  let u := mainUnprovided mainDeps st
  if u ≠ [] then (st, .need u)
  else
    let st' := process deps perm (st.pending.length + 1) st
    let u2 := unprovided deps st'
    if u2 ≠ [] then (st', .need u2)
    else
      let still := mainMissing mainDeps st'
      if still ≠ [] then (st', .need (still.filter (fun d => !st'.pending.contains d)))
      else (st', .run)

end TsrunVerif.Mod
