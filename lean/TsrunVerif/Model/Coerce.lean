import TsrunVerif.Model.Ops

/-!
# M-Coerce — objects as operands: ToPrimitive and the operators built on it

ECMA-262 7.1.1 ToPrimitive / 7.1.1.1 OrdinaryToPrimitive and their use by `+`, the arithmetic and
relational operators, `==`, unary `+`/`-`, template literals and `String()` / `Number()`.  An object
operand is abstracted to what its `valueOf`, `toString` and `[Symbol.toPrimitive]` do when called
(`Beh`); the model returns the result AND the log of method calls (which object, which method), because
the order and the number of those calls are observable.  Primitives go through M-Ops.
Transcribed against `Interpreter::coerce_to_primitive` and the operator arms of `execute_op`.
-/
namespace TsrunVerif.Coerce
open TsrunVerif.Ops

/-- what a conversion method does when called -/
inductive Beh where
  | ret (v : V)          -- returns a primitive
  | retObj               -- returns an object (not a primitive)
  | throws (tag : Nat)   -- throws `tag`
  | absent               -- the property is not callable (undefined)
  deriving Repr, DecidableEq, Inhabited

structure ObjB where
  name : Nat
  valueOf : Beh
  toString : Beh
  toPrim : Beh           -- `absent`: no [Symbol.toPrimitive]
  deriving Repr, DecidableEq, Inhabited

inductive Operand where
  | prim (v : V)
  | obj (o : ObjB)
  deriving Repr, DecidableEq, Inhabited

inductive Hint where
  | default | number | string
  deriving Repr, DecidableEq, Inhabited

inductive Res (α : Type) where
  | ok (v : α)
  | typeError
  | thrown (tag : Nat)
  deriving Repr, DecidableEq, Inhabited

/-- a logged call: object, method (`v` valueOf, `s` toString, `p` [Symbol.toPrimitive]) -/
abbrev Log := List (Nat × Char)

/-- OrdinaryToPrimitive over the two methods in the given order -/
def ordinary (o : ObjB) : List (Char × Beh) → Res V × Log
  | [] => (.typeError, [])
  | (c, b) :: rest =>
    match b with
    | .absent => ordinary o rest
    | .ret v => (.ok v, [(o.name, c)])
    | .throws t => (.thrown t, [(o.name, c)])
    | .retObj => let (r, l) := ordinary o rest; (r, (o.name, c) :: l)

/-- ToPrimitive -/
def toPrimitive (hint : Hint) : Operand → Res V × Log
  | .prim v => (.ok v, [])
  | .obj o =>
    match o.toPrim with
    | .ret v => (.ok v, [(o.name, 'p')])
    | .retObj => (.typeError, [(o.name, 'p')])
    | .throws t => (.thrown t, [(o.name, 'p')])
    | .absent =>
      if hint = .string then ordinary o [('s', o.toString), ('v', o.valueOf)]
      else ordinary o [('v', o.valueOf), ('s', o.toString)]

/-- convert both operands, LEFT first; the right one is not touched when the left one fails -/
def both (hint : Hint) (a b : Operand) : Res (V × V) × Log :=
  match toPrimitive hint a with
  | (.ok x, la) =>
    (match toPrimitive hint b with
     | (.ok y, lb) => (.ok (x, y), la ++ lb)
     | (.typeError, lb) => (.typeError, la ++ lb)
     | (.thrown t, lb) => (.thrown t, la ++ lb))
  | (.typeError, la) => (.typeError, la)
  | (.thrown t, la) => (.thrown t, la)

def isObj : Operand → Bool
  | .obj _ => true
  | .prim _ => false

/-- binary operators: `+` converts with hint default, the other arithmetic / bitwise / relational operators with
    hint number; `==` converts an object only against a primitive that is not null/undefined; `===` never converts -/
def binary (op : String) (a b : Operand) : Res V × Log :=
  if op = "===" ∨ op = "!==" then
    match a, b with
    | .prim x, .prim y => (match binop op x y with | some r => .ok r | none => .typeError, [])
    | .obj p, .obj q => (.ok (.bool ((p.name == q.name) == (op = "==="))), [])
    | _, _ => (.ok (.bool (op = "!==")), [])
  else if op = "==" ∨ op = "!=" then
    let neg := op = "!="
    match a, b with
    | .prim x, .prim y => (match binop op x y with | some r => .ok r | none => .typeError, [])
    | .obj p, .obj q => (.ok (.bool ((p.name == q.name) != neg)), [])
    | .obj _, .prim y =>
      if y = .undef ∨ y = .null then (.ok (.bool neg), [])
      else (match toPrimitive .default a with
        | (.ok x, l) => (match binop op x y with | some r => .ok r | none => .typeError, l)
        | (.typeError, l) => (.typeError, l)
        | (.thrown t, l) => (.thrown t, l))
    | .prim x, .obj _ =>
      if x = .undef ∨ x = .null then (.ok (.bool neg), [])
      else (match toPrimitive .default b with
        | (.ok y, l) => (match binop op x y with | some r => .ok r | none => .typeError, l)
        | (.typeError, l) => (.typeError, l)
        | (.thrown t, l) => (.thrown t, l))
  else
    let hint := if op = "+" then Hint.default else Hint.number
    match both hint a b with
    | (.ok (x, y), l) => (match binop op x y with | some r => .ok r | none => .typeError, l)
    | (.typeError, l) => (.typeError, l)
    | (.thrown t, l) => (.thrown t, l)

/-- unary `+` / `-` / `~` (ToNumber: hint number), `!` and `typeof` (no conversion), `String(x)` / template literal
    (hint string), `Number(x)` -/
def unary (op : String) (a : Operand) : Res V × Log :=
  if op = "!" then (.ok (.bool (match a with | .obj _ => false | .prim v => !toBoolean v)), [])
  else if op = "typeof" then (.ok (.str (match a with | .obj _ => "object" | .prim v => typeOf v)), [])
  else
    let hint := if op = "String" then Hint.string else Hint.number
    match toPrimitive hint a with
    | (.ok x, l) =>
      if op = "String" then (.ok (.str (toStr x)), l)
      else if op = "Number" then (.ok (.num (toNumber x)), l)
      else (match unop op x with | some r => .ok r | none => .typeError, l)
    | (.typeError, l) => (.typeError, l)
    | (.thrown t, l) => (.thrown t, l)

end TsrunVerif.Coerce
